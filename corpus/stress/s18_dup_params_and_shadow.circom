pragma circom 2.0.0;
template T(n, n) { var n = 1; signal input n; }
function g(x, y, x) { return x; }
