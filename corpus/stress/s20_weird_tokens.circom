pragma circom 2.0.0;
include "nonexistent.circom";
template T() { signal input $a; signal output _b; _b <== $a; var __x__ = 1; }
