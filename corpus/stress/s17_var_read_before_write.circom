pragma circom 2.0.0;
function f(n) { var z; var w[2]; if (n > 1) { z = 1; } w[z] = z; return w[0] + z; }
