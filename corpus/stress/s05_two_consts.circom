pragma circom 2.0.0;
template T(a) { signal output b; if (a == 0) { b <-- 1; } else { b <-- 2; } }
