pragma circom 2.0.0;
function f(a) { var z = 0; return (1 % 0) + (a \ z) + (2 / 0) + (3 \ 0); }
