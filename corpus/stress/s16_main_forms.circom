pragma circom 2.0.0;
pragma custom_templates;
template custom C() { signal input a; signal output b; b <-- a; }
template T(n) { signal input a[n]; signal output b; component c = C(); c.a <== a[0]; b <== c.b; }
component main {public [a]} = T(3);
