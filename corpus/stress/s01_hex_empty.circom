pragma circom 2.0.0;
function f() { var x = 0x; return x; }
