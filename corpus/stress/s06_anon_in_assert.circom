pragma circom 2.0.0;
template A() { signal input in; signal output out; out <== in; }
template T() { signal input in; assert(A()(in) == 1); log(A()(in)); }
