pragma circom 2.0.0;
template A(n) { signal input a; signal input b; signal output o; signal output p; o <== a; p <== b; }
template T() {
  signal input x; signal output y; signal output z;
  (y, z) <== A(1)(x, x);
  var (u, v) = (1, 2);
  (_, _) <== A(2)(x, x);
  if ((1, 2) == (1, 2)) { y <== x; }
  var w[(1,2)];
  log((1, 2), A(1)(x, x));
  assert((x, x));
  component c = A((1, 2));
  (y, z) <== (A(1)(x, x), 1);
}
function f(n) { return (n, n); }
