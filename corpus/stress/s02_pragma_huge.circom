pragma circom 99999999999999999999999.0.0;
template T() { signal input a; signal output b; b <== a; }
