pragma circom 2.1.4;
