pragma circom 2.0.0;
template A() {
  signal input in;
  signal output out;
  signal tmp;
  tmp <-- in / 2;
  if (1 == 1) {
    out <== tmp * tmp;
  } else {
    out <== ~in;
  }
}
