pragma circom 2.1.4;

function roundConstant(i) {
    var c[4] = [3, 7, 13, 21];
    return c[i % 4] + i * i;
}

template Round(i) {
    signal input x;
    signal input k;
    signal output y;
    signal t2;
    signal t4;
    var c = roundConstant(i);
    t2 <== (x + k + c) * (x + k + c);
    t4 <== t2 * t2;
    y <== t4 * (x + k + c);
}

template Permute(nRounds) {
    signal input x;
    signal input k;
    signal output y;
    component r[nRounds];
    for (var i = 0; i < nRounds; i++) {
        r[i] = Round(i);
        r[i].k <== k;
        if (i == 0) {
            r[i].x <== x;
        } else {
            r[i].x <== r[i - 1].y;
        }
    }
    y <== r[nRounds - 1].y + k;
}

template Sponge(nIn) {
    signal input in[nIn];
    signal output out;
    signal st[nIn + 1];
    st[0] <== 0;
    for (var i = 0; i < nIn; i++) {
        st[i + 1] <== Permute(3)(in[i], st[i]);
    }
    out <== st[nIn];
}

template Switcher() {
    signal input sel;
    signal input l;
    signal input r;
    signal output outL;
    signal output outR;
    signal aux;
    sel * (sel - 1) === 0;
    aux <== (r - l) * sel;
    outL <== aux + l;
    outR <== -aux + r;
}

template MerklePath(depth) {
    signal input leaf;
    signal input path[depth];
    signal input dirs[depth];
    signal output root;
    signal cur[depth + 1];
    signal pair[depth][2];
    cur[0] <== leaf;
    for (var d = 0; d < depth; d++) {
        (pair[d][0], pair[d][1]) <== Switcher()(dirs[d], cur[d], path[d]);
        cur[d + 1] <== Sponge(2)([pair[d][0], pair[d][1]]);
    }
    root <== cur[depth];
}

component main = MerklePath(3);
