pragma circom 2.0.0;
function f(n) {
  var r = 0;
  for (var i = 0; i < n; i++) {
    var r = i;
    r += 1;
  }
  if (r == 0) { return 1; }
  return r;
}
