pragma circom 2.0.0;
template T(n) {
  signal input a;
  signal output b;
  var x = 1;
  b <-- a * x;
}
