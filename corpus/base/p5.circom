pragma circom 2.1.0;
template B(k) {
  signal input a[2];
  signal output o;
  signal output p;
  var unused = k + 1;
  o <-- a[0] < a[1] ? 1 : 0;
  p <== a[0] * a[1];
  log("value", o);
  assert(o * (o - 1) == 0);
}
component main = B(3);
