pragma circom 2.1.4;

function nbits(a) {
    var n = 1;
    var r = 0;
    while (n - 1 < a) {
        r++;
        n *= 2;
    }
    return r;
}

template Num2Bits(n) {
    signal input in;
    signal output out[n];
    var lc1 = 0;
    var e2 = 1;
    for (var i = 0; i < n; i++) {
        out[i] <-- (in >> i) & 1;
        out[i] * (out[i] - 1) === 0;
        lc1 += out[i] * e2;
        e2 = e2 + e2;
    }
    lc1 === in;
}

template LessThan(n) {
    assert(n <= 252);
    signal input in[2];
    signal output out;
    component n2b = Num2Bits(n + 1);
    n2b.in <== in[0] + (1 << n) - in[1];
    out <== 1 - n2b.out[n];
}

template IsZero() {
    signal input in;
    signal output out;
    signal inv;
    inv <-- in != 0 ? 1 / in : 0;
    out <== -in * inv + 1;
    in * out === 0;
}

template Mux(n) {
    signal input c[n];
    signal input s;
    signal output out;
    component eq[n];
    var acc = 0;
    signal terms[n];
    for (var i = 0; i < n; i++) {
        eq[i] = IsZero();
        eq[i].in <== s - i;
        terms[i] <== eq[i].out * c[i];
        acc += terms[i];
    }
    out <== acc;
}

template RangeSelect(n, w) {
    signal input vals[n];
    signal input idx;
    signal input bound;
    signal output picked;
    signal output inRange;
    component lt = LessThan(w);
    lt.in[0] <== idx;
    lt.in[1] <== bound;
    inRange <== lt.out;
    component mux = Mux(n);
    for (var i = 0; i < n; i++) {
        mux.c[i] <== vals[i];
    }
    mux.s <== idx;
    picked <== mux.out * inRange;
    var width = nbits(n);
    log("width", width);
}

component main {public [bound]} = RangeSelect(4, 8);
