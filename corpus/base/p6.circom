pragma circom 2.0.0;
function g(a, b) {
  var q = a \ b;
  var z;
  while (q > 0) {
    z = z + (q % 2);
    q = q >> 1;
  }
  return z;
}
template C() {
  signal input i;
  signal output o;
  var t = g(3, 2);
  o <== i * t;
}
