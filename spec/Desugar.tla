------------------------------ MODULE Desugar ------------------------------
(***************************************************************************)
(* Tuples and anonymous components (parser/src/syntax_sugar_remover.rs).   *)
(* C18.  The space of uses: a sugar FORM written at a POSITION of a        *)
(* statement, inside a template or a function, inside or outside a loop.   *)
(*                                                                         *)
(* Ref : (a) no definition handed to the analysis contains a tuple, an     *)
(*           anonymous component or a multi-substitution;                  *)
(*       (b) a function that contains one is rejected with an error;       *)
(*       (c) for a template the use is either rejected with an error (the  *)
(*           template is dropped), or it behaves as Expand(use):           *)
(*             anonymous  T(p..)(a..)  at an expression position  ==>      *)
(*               component h = T(p..);  h.<input_i> <op_i> a_i  (inputs in *)
(*               declaration order, or by name);  the expression becomes   *)
(*               h.<output>  (outputs in declaration order for a tuple     *)
(*               target);                                                  *)
(*             tuple  (l1, .., ln) op (r1, .., rn)  ==>  l_i op r_i in     *)
(*               order, skipping `_`; a length mismatch is an error;       *)
(*           i.e. the findings equal those of the hand-written expansion;  *)
(*       (d) never a panic.                                                *)
(* TLC enumerates the uses with Ref's verdict class; the harness renders   *)
(* the sugared and the expanded text of each.                              *)
(***************************************************************************)
EXTENDS Integers, Sequences, FiniteSets, TLC, Json

ExprPositions == {"rhs_constrain", "rhs_assign", "decl_init", "var_init", "var_assign", "arith", "cond", "index_rhs", "index_lhs",
                  "assert_arg", "log_arg", "return_arg", "call_arg", "template_param", "nested_input", "ceq_side", "ternary_arm",
                  "array_literal", "dimension", "while_cond", "statement"}
AnonForms == {"anon1", "anon2", "anon_named", "anon_named_rev", "anon_param", "anon0", "anon_parallel", "anon_mixed_ops", "anon_mixed_ops_rev"}
TupleExprForms == {"tuple2", "tuple3"}
TupleStmtForms == {"t_pair", "t_skip_first", "t_skip_last", "t_triple", "t_anon_outputs", "t_anon_outputs_skip", "t_length_mismatch",
                   "t_nested", "t_var_decl", "t_var_assign", "t_assign_op", "t_reversed", "t_all_skipped", "t_single",
                   "t_discard_anon", "t_discard_anon_paren", "t_discard_anon_assign"}

VARIABLE use
Init == \/ use \in [kind : {"expr"}, position : ExprPositions, form : AnonForms \cup TupleExprForms, where : {"template", "function"}, loop : BOOLEAN]
        \/ use \in [kind : {"stmt"}, position : {"statement"}, form : TupleStmtForms, where : {"template", "function"}, loop : BOOLEAN]
Next == UNCHANGED use
Spec == Init /\ [][Next]_use

\* Ref's verdict class
Class(u) == IF u.where = "function" THEN "function-must-be-rejected"
            ELSE IF u.form = "t_length_mismatch" THEN "template-must-be-rejected"
            ELSE "rejected-or-equal-to-expansion"
Emit == PrintT(<<"CASE", ToJson([kind |-> use.kind, position |-> use.position, form |-> use.form, where |-> use.where, loop |-> use.loop,
                                 class |-> Class(use)])>>)
=============================================================================
