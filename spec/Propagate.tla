----------------------------- MODULE Propagate -----------------------------
(***************************************************************************)
(* Impl model of value and degree propagation (program_structure/src/      *)
(* control_flow_graph/cfg.rs propagate_values / propagate_degrees,         *)
(* basic_block.rs, intermediate_representation/{statement_impl,            *)
(* expression_impl, degree_meta, value_meta}.rs), written to be bound:     *)
(* one operator per function of the code, the same evaluation order, and   *)
(* in particular the same SHORT-CIRCUITS: every `result = result || f()`   *)
(* of the code skips f once an earlier step reported a first-time update,  *)
(* which is why roughly one node is settled per pass and why the state in  *)
(* which the time box cuts the iteration matters (C20).                    *)
(*                                                                         *)
(* A record is one definition in SSA form as exported from the real code   *)
(* (flattened: `nodes` = expression nodes in evaluation order, `blocks` =  *)
(* statements), together with the SNAPSHOTS the real code produced when    *)
(* stopped after k = 0, 1, 2, ... passes (hook H2): the degree range and   *)
(* the constant of every node, the constant of every assignment.  This is  *)
(* trace validation in the strict sense: the behaviour of this spec        *)
(* (state after each pass) must be the recorded behaviour of the code,     *)
(* state by state, and must stop after the same number of passes.  A       *)
(* difference is DRIFT between this description and the code, not a        *)
(* violation of a property; the claims themselves are judged by            *)
(* Semantics.tla (C06, C07, C20).                                          *)
(***************************************************************************)
EXTENDS Field, FiniteSets, IOUtils

Rec == ndJsonDeserialize(IOEnv.TRACE)

(* ------------------------------ degrees ------------------------------- *)
NoD == <<-1, -1>>                       \* unknown
Const == <<0, 0>>
Lin == <<1, 1>>
Max(a, b) == IF a >= b THEN a ELSE b
Min(a, b) == IF a <= b THEN a ELSE b
\* Degree::{add, mul, ...}: 0 constant, 1 linear, 2 quadratic, 3 non-quadratic
DegOp(op, a, b) ==
  CASE op \in {"add", "sub"} -> Max(a, b)
    [] op = "mul" -> IF a = 0 THEN b ELSE IF b = 0 THEN a ELSE IF a = 1 /\ b = 1 THEN 2 ELSE 3
    [] op = "div" -> IF b = 0 THEN a ELSE 3
    [] OTHER -> IF a = 0 /\ b = 0 THEN 0 ELSE 3
DegUn(op, a) == IF op = "prefix_sub" THEN a ELSE IF a = 0 THEN 0 ELSE 3
\* DegreeRange operations work bound by bound
RangeOp(op, x, y) == IF x = NoD \/ y = NoD THEN NoD ELSE <<DegOp(op, x[1], y[1]), DegOp(op, x[2], y[2])>>
RangeUn(op, x) == IF x = NoD THEN NoD ELSE <<DegUn(op, x[1]), DegUn(op, x[2])>>
Inf(x, y) == <<Min(x[1], y[1]), Max(x[2], y[2])>>
\* DegreeRange::iter_opt: unknown if empty or any unknown, else the infimum
RECURSIVE IterInf(_, _)
IterInf(q, acc) == IF q = <<>> THEN acc ELSE IterInf(Tail(q), Inf(acc, Head(q)))
IterOpt(q) == IF q = <<>> \/ \E i \in 1..Len(q) : q[i] = NoD THEN NoD ELSE IterInf(Tail(q), Head(q))

\* state of degree propagation: [d: node -> range, env: variable -> range, ty: variable -> type, asg: set of variables]
EnvD(S, x) == IF x \in DOMAIN S.env THEN S.env[x] ELSE NoD
IsLocal(S, x) == x \in DOMAIN S.ty /\ S.ty[x] = "var"
\* meta.degree_knowledge_mut().set_degree(range) guarded by `result ||`: <<state, result>>
SetD(S, n, range, res) == IF res THEN <<S, TRUE>> ELSE <<[S EXCEPT !.d[n] = range], S.d[n] = NoD>>

\* Expression::propagate_degrees: <<state, result>>
RECURSIVE PD(_, _, _), PDSeq(_, _, _, _)
\* children visited in order, each skipped once the running result is true
PDSeq(N, kids, S, res) == IF kids = <<>> THEN <<S, res>>
                          ELSE IF res THEN <<S, TRUE>>
                          ELSE LET a == PD(N, Head(kids), S) IN PDSeq(N, Tail(kids), a[1], a[2])
PD(N, n, S) ==
  LET nd == N[n] IN
  CASE nd.k = "num" -> SetD(S, n, Const, FALSE)
    [] nd.k = "var" -> IF EnvD(S, nd.x) # NoD THEN SetD(S, n, EnvD(S, nd.x), FALSE) ELSE <<S, FALSE>>
    [] nd.k = "infix" ->
         LET a == PDSeq(N, <<nd.l, nd.r>>, S, FALSE)
             rg == RangeOp(nd.op, a[1].d[nd.l], a[1].d[nd.r]) IN
         IF rg # NoD THEN SetD(a[1], n, rg, a[2]) ELSE a
    [] nd.k = "prefix" ->
         LET a == PD(N, nd.r, S)
             rg == RangeUn(nd.op, a[1].d[nd.r]) IN
         IF rg # NoD THEN SetD(a[1], n, rg, a[2]) ELSE a
    [] nd.k = "switch" ->
         LET a == PDSeq(N, <<nd.c, nd.l, nd.r>>, S, FALSE)
             cd == a[1].d[nd.c]
             rg == IterOpt(<<a[1].d[nd.l], a[1].d[nd.r]>>) IN
         IF cd # NoD /\ cd[2] = 0 /\ rg # NoD THEN SetD(a[1], n, rg, a[2]) ELSE a
    [] nd.k = "call" ->
         LET a == PDSeq(N, nd.kids, S, FALSE) IN
         IF \A i \in 1..Len(nd.kids) : a[1].d[nd.kids[i]] # NoD /\ a[1].d[nd.kids[i]][2] = 0
         THEN SetD(a[1], n, Const, a[2]) ELSE a
    [] nd.k = "array" ->
         LET a == PDSeq(N, nd.kids, S, FALSE)
             rg == IterOpt([i \in 1..Len(nd.kids) |-> a[1].d[nd.kids[i]]]) IN
         IF rg # NoD THEN SetD(a[1], n, rg, a[2]) ELSE a
    [] nd.k = "access" ->
         LET a == PDSeq(N, nd.kids, S, FALSE) IN
         IF EnvD(a[1], nd.x) # NoD THEN SetD(a[1], n, EnvD(a[1], nd.x), a[2]) ELSE a
    [] nd.k = "update" ->
         \* the right-hand side first, then the indices; the first assignment to the array takes the degree of the
         \* right-hand side, a later one the infimum with the previous version (unknown if that is unknown)
         LET a == PDSeq(N, <<nd.r>> \o nd.kids, S, FALSE)
             rg == IF nd.x \notin a[1].asg THEN a[1].d[nd.r] ELSE IterOpt(<<EnvD(a[1], nd.x), a[1].d[nd.r]>>) IN
         IF rg # NoD THEN SetD(a[1], n, rg, a[2]) ELSE a
    [] nd.k = "phi" ->
         LET rg == IterOpt([i \in 1..Len(nd.phi) |-> EnvD(S, nd.phi[i])]) IN
         IF rg # NoD THEN SetD(S, n, rg, FALSE) ELSE <<S, FALSE>>
    [] OTHER -> <<S, FALSE>>

\* DegreeEnvironment::set_degree guarded by `result ||`
SetEnvD(S, x, range, res) == IF res THEN <<S, TRUE>>
                             ELSE <<[S EXCEPT !.env = (x :> range) @@ @], x \notin DOMAIN S.env>>
RECURSIVE DeclNames(_, _, _, _)
DeclNames(names, ty, S, res) ==
  IF names = <<>> THEN <<S, res>>
  ELSE LET x == Head(names)
           a == IF ty \in {"input", "output", "signal", "component", "anon"} THEN SetEnvD(S, x, Lin, res) ELSE <<S, res>>
           S2 == [a[1] EXCEPT !.ty = IF x \in DOMAIN @ THEN @ ELSE (x :> ty) @@ @] IN
       DeclNames(Tail(names), ty, S2, a[2])
\* Statement::propagate_degrees
PDStmt(N, st, S) ==
  CASE st.k = "decl" -> DeclNames(st.names, st.ty, S, FALSE)
    [] st.k = "sub" ->
         LET a == PD(N, st.e, S) IN
         IF IsLocal(a[1], st.x)
         THEN LET S2 == [a[1] EXCEPT !.asg = @ \cup {st.x}] IN
              IF S2.d[st.e] # NoD THEN SetEnvD(S2, st.x, S2.d[st.e], a[2]) ELSE <<S2, a[2]>>
         ELSE a
    [] st.k = "log" -> PDSeq(N, st.kids, S, FALSE)
    [] st.k \in {"if", "ret", "assert"} -> PD(N, st.e, S)
    [] st.k = "ceq" -> PDSeq(N, <<st.e2, st.e>>, S, FALSE)
    [] OTHER -> <<S, FALSE>>
\* BasicBlock::propagate_degrees and the loop over the blocks in Cfg::propagate_degrees: both short-circuit
RECURSIVE PDStmts(_, _, _, _), PDBlocks(_, _, _, _)
PDStmts(N, stmts, S, res) == IF stmts = <<>> \/ res THEN <<S, res>>
                             ELSE LET a == PDStmt(N, Head(stmts), S) IN PDStmts(N, Tail(stmts), a[1], a[2])
PDBlocks(N, blocks, S, res) == IF blocks = <<>> \/ res THEN <<S, res>>
                               ELSE LET a == PDStmts(N, Head(blocks).stmts, S, FALSE) IN PDBlocks(N, Tail(blocks), a[1], a[2])
\* initial environment: parameters are locals; constant in templates, [constant, linear] in functions
InitD(R) == [d |-> [n \in 1..Len(R.nodes) |-> NoD],
             env |-> [x \in {R.params[i] : i \in 1..Len(R.params)} |-> IF R.function THEN <<0, 1>> ELSE Const],
             ty |-> [x \in {R.params[i] : i \in 1..Len(R.params)} |-> "var"],
             asg |-> {}]

(* ------------------------------- values ------------------------------- *)
NoV == [b |-> FALSE, v |-> -1]          \* unknown; field element [b FALSE, v]; boolean [b TRUE, v in {0, 1}]
FE(v) == [b |-> FALSE, v |-> v]
BV(t) == [b |-> TRUE, v |-> IF t THEN 1 ELSE 0]
FieldToField == {"mul", "div", "add", "sub", "pow", "idiv", "mod_op", "shift_l", "shift_r", "bit_or", "bit_and", "bit_xor"}
FieldToBool == {"lesser_eq", "greater_eq", "lesser", "greater", "eq", "not_eq"}
ValOp(op, x, y, P) ==
  IF x = NoV \/ y = NoV THEN NoV
  ELSE IF ~x.b /\ ~y.b THEN
         (IF op \in FieldToField THEN (LET r == Bin(op, x.v, y.v, P) IN IF r = Err THEN NoV ELSE FE(r))
          ELSE IF op \in FieldToBool THEN BV(Bin(op, x.v, y.v, P) # 0)
          ELSE NoV)
  ELSE IF x.b /\ y.b THEN
         (IF op = "bool_and" THEN BV(x.v = 1 /\ y.v = 1) ELSE IF op = "bool_or" THEN BV(x.v = 1 \/ y.v = 1) ELSE NoV)
  ELSE NoV
ValUn(op, x, P) ==
  IF x = NoV THEN NoV
  ELSE IF ~x.b THEN (IF op \in {"prefix_sub", "complement_256"} THEN FE(Un(op, x.v, P)) ELSE NoV)
  ELSE (IF op = "not" THEN BV(x.v = 0) ELSE NoV)

\* state of value propagation: [v: node -> value, env: variable -> value, sv: statement -> value]
EnvV(S, x) == IF x \in DOMAIN S.env THEN S.env[x] ELSE NoV
SetV(S, n, val, res) == IF res THEN <<S, TRUE>> ELSE <<[S EXCEPT !.v[n] = val], S.v[n] = NoV>>
RECURSIVE PV(_, _, _, _), PVSeq(_, _, _, _, _)
PVSeq(N, kids, S, res, P) == IF kids = <<>> THEN <<S, res>>
                             ELSE IF res THEN <<S, TRUE>>
                             ELSE LET a == PV(N, Head(kids), S, P) IN PVSeq(N, Tail(kids), a[1], a[2], P)
PV(N, n, S, P) ==
  LET nd == N[n] IN
  CASE nd.k = "num" -> SetV(S, n, FE(nd.v % P), FALSE)
    [] nd.k = "var" -> IF EnvV(S, nd.x) # NoV THEN SetV(S, n, EnvV(S, nd.x), FALSE) ELSE <<S, FALSE>>
    [] nd.k = "infix" ->
         LET a == PVSeq(N, <<nd.l, nd.r>>, S, FALSE, P)          \* lhe.propagate_values(env) || rhe.propagate_values(env)
             val == ValOp(nd.op, a[1].v[nd.l], a[1].v[nd.r], P) IN
         IF val # NoV THEN SetV(a[1], n, val, a[2]) ELSE a
    [] nd.k = "prefix" ->
         LET a == PV(N, nd.r, S, P)
             val == ValUn(nd.op, a[1].v[nd.r], P) IN
         IF val # NoV THEN SetV(a[1], n, val, a[2]) ELSE a
    [] nd.k = "switch" ->
         \* the three children are combined with `|`: all of them are visited
         LET a == PV(N, nd.c, S, P)
             b == PV(N, nd.l, a[1], P)
             c == PV(N, nd.r, b[1], P)
             res == a[2] \/ b[2] \/ c[2]
             S3 == c[1]
             cv == S3.v[nd.c]
             truth == IF cv.b THEN cv.v = 1 ELSE cv.v # 0
             pick == IF cv = NoV THEN NoV ELSE IF truth THEN S3.v[nd.l] ELSE S3.v[nd.r] IN
         IF pick # NoV THEN SetV(S3, n, pick, res) ELSE <<S3, res>>
    [] nd.k \in {"call", "array", "access"} -> PVSeq(N, nd.kids, S, FALSE, P)
    [] nd.k = "update" -> PVSeq(N, <<nd.r>> \o nd.kids, S, FALSE, P)
    [] nd.k = "phi" ->
         \* a value only if every argument has one and they all agree
         LET vals == {EnvV(S, nd.phi[i]) : i \in 1..Len(nd.phi)} IN
         IF NoV \notin vals /\ Cardinality(vals) = 1 THEN SetV(S, n, CHOOSE x \in vals : TRUE, FALSE) ELSE <<S, FALSE>>
    [] OTHER -> <<S, FALSE>>
\* Statement::propagate_values; st.i = index of the statement (for the value attached to the assignment itself)
PVStmt(N, st, S, P) ==
  CASE st.k = "decl" -> PVSeq(N, st.kids, S, FALSE, P)
    [] st.k = "sub" ->
         LET a == PV(N, st.e, S, P)
             val == a[1].v[st.e] IN
         IF N[st.e].k # "update" /\ val # NoV
         THEN LET S2 == IF st.tyk = "var" THEN [a[1] EXCEPT !.env = IF st.x \in DOMAIN @ THEN @ ELSE (st.x :> val) @@ @] ELSE a[1] IN
              IF a[2] THEN <<S2, TRUE>> ELSE <<[S2 EXCEPT !.sv[st.i] = val], S2.sv[st.i] = NoV>>
         ELSE a
    [] st.k = "log" -> PVSeq(N, st.kids, S, FALSE, P)
    [] st.k \in {"if", "ret", "assert"} -> PV(N, st.e, S, P)
    [] st.k = "ceq" -> PVSeq(N, <<st.e2, st.e>>, S, FALSE, P)
    [] OTHER -> <<S, FALSE>>
RECURSIVE PVStmts(_, _, _, _, _, _), PVBlocks(_, _, _, _, _)
\* a phi with fewer arguments than the block has predecessors is skipped (a path without definition)
PVStmts(N, stmts, np, S, res, P) ==
  IF stmts = <<>> \/ res THEN <<S, res>>
  ELSE LET st == Head(stmts) IN
       IF st.k = "sub" /\ N[st.e].k = "phi" /\ Len(N[st.e].phi) < np THEN PVStmts(N, Tail(stmts), np, S, res, P)
       ELSE LET a == PVStmt(N, st, S, P) IN PVStmts(N, Tail(stmts), np, a[1], a[2], P)
PVBlocks(N, blocks, S, res, P) == IF blocks = <<>> \/ res THEN <<S, res>>
                                  ELSE LET a == PVStmts(N, Head(blocks).stmts, Head(blocks).npreds, S, FALSE, P) IN
                                       PVBlocks(N, Tail(blocks), a[1], a[2], P)
InitV(R) == [v |-> [n \in 1..Len(R.nodes) |-> NoV], env |-> <<>>, sv |-> [i \in 1..R.nstmts |-> NoV]]

(* --------------------- the machine and its trace ---------------------- *)
VARIABLES l,        \* record index
          k,        \* passes done
          SD, SV,   \* state of degree / value propagation
          runD, runV,  \* another pass is due (`rerun`)
          bad
vars == <<l, k, SD, SV, runD, runV, bad>>
R == Rec[l]
Load(i) == /\ l' = i /\ k' = 0 /\ bad' = ""
           /\ IF i <= Len(Rec) THEN /\ SD' = InitD(Rec[i]) /\ SV' = InitV(Rec[i])
                               ELSE /\ SD' = <<>> /\ SV' = <<>>
           /\ runD' = TRUE /\ runV' = TRUE
Init == /\ l = 1 /\ k = 0 /\ bad = "" /\ runD = TRUE /\ runV = TRUE
        /\ SD = IF Len(Rec) >= 1 THEN InitD(Rec[1]) ELSE <<>>
        /\ SV = IF Len(Rec) >= 1 THEN InitV(Rec[1]) ELSE <<>>
\* one pass of each propagation that is still running
Pass == /\ l <= Len(Rec) /\ bad = "" /\ (runD \/ runV)
        /\ LET a == IF runD THEN PDBlocks(R.nodes, R.blocks, SD, FALSE) ELSE <<SD, FALSE>>
               b == IF runV THEN PVBlocks(R.nodes, R.blocks, SV, FALSE, R.P) ELSE <<SV, FALSE>> IN
           /\ SD' = a[1] /\ runD' = a[2] /\ SV' = b[1] /\ runV' = b[2]
        /\ k' = k + 1 /\ UNCHANGED <<l, bad>>
NextRecord == /\ l <= Len(Rec) /\ (bad # "" \/ (~runD /\ ~runV)) /\ Load(l + 1)
\* the recorded behaviour: snapD[j + 1] / snapV[j + 1] / snapS[j + 1] = the code's state when stopped after j passes
\* (the last snapshot is the fix-point); passesD / passesV = number of passes the code ran
SnapD(j) == R.snapD[Min(j, Len(R.snapD) - 1) + 1]
SnapV(j) == R.snapV[Min(j, Len(R.snapV) - 1) + 1]
SnapS(j) == R.snapS[Min(j, Len(R.snapS) - 1) + 1]
Verdict ==
  IF \E n \in 1..Len(R.nodes) : SD.d[n] # SnapD(k)[n] THEN
       LET n == CHOOSE m \in 1..Len(R.nodes) : SD.d[m] # SnapD(k)[m] IN
       [why |-> "degree of a node after this pass differs", node |-> n, model |-> SD.d[n], code |-> SnapD(k)[n]]
  ELSE IF \E n \in 1..Len(R.nodes) : SV.v[n] # SnapV(k)[n] THEN
       LET n == CHOOSE m \in 1..Len(R.nodes) : SV.v[m] # SnapV(k)[m] IN
       [why |-> "value of a node after this pass differs", node |-> n, model |-> <<SV.v[n].b, SV.v[n].v>>, code |-> <<SnapV(k)[n].b, SnapV(k)[n].v>>]
  ELSE IF \E i \in 1..R.nstmts : SV.sv[i] # SnapS(k)[i] THEN
       [why |-> "value attached to an assignment after this pass differs", node |-> 0, model |-> <<>>, code |-> <<>>]
  ELSE IF ~runD /\ ~runV /\ k # Max(R.passesD, R.passesV) THEN
       [why |-> "number of passes differs", node |-> 0, model |-> <<k>>, code |-> <<R.passesD, R.passesV>>]
  ELSE [why |-> "", node |-> 0, model |-> <<>>, code |-> <<>>]
Check == /\ l <= Len(Rec) /\ bad = "" /\ Verdict.why # ""
         /\ bad' = Verdict.why /\ UNCHANGED <<l, k, SD, SV, runD, runV>>
Next == Check \/ (l <= Len(Rec) /\ Verdict.why = "" /\ Pass) \/ NextRecord
Spec == Init /\ [][Next]_vars

Conforms == (l <= Len(Rec) /\ bad = "" /\ Verdict.why # "") =>
               PrintT(<<"REJECT", ToJson([idx |-> l, pass |-> k, why |-> Verdict.why, node |-> Verdict.node,
                                          model |-> Verdict.model, code |-> Verdict.code])>>)
Consumed == (l = Len(Rec) + 1) => PrintT(<<"CONSUMED", ToJson([n |-> Len(Rec)])>>)
=============================================================================
