SPECIFICATION Spec
INVARIANT Contract
INVARIANT Emit
CHECK_DEADLOCK FALSE
