------------------------------ MODULE Field ------------------------------
(***************************************************************************)
(* Reference semantics of Circom's field operations over F_p               *)
(* (circom_algebra/src/modular_arithmetic.rs).  C16; reused by Semantics   *)
(* (C06, C07, C09, C20).  Written from the Circom documentation:           *)
(*   - results canonical in [0, p);                                        *)
(*   - comparisons on signed representatives val(x) in (-p/2, p/2];        *)
(*   - x >> k = x div 2^k for k <= p/2, else x << (p - k);                 *)
(*     x << k = (x * 2^k & mask) mod p for k <= p/2, else x >> (p - k);    *)
(*     mask = 2^bits(p) - 1;                                               *)
(*   - bitwise and/or/xor on the canonical representatives, reduced mod p; *)
(*   - ~x = (2^256 - 1 - x) mod p (256-bit complement, reduced);           *)
(*   - a / b = a * b^-1; division, integer division and remainder by zero  *)
(*     are errors (Err).                                                   *)
(***************************************************************************)
EXTENDS Integers, Sequences, TLC, Json, Bitwise

Err == -1

RECURSIVE Bits(_)
Bits(n) == IF n = 0 THEN 0 ELSE 1 + Bits(n \div 2)
RECURSIVE Pow2(_)
Pow2(k) == IF k = 0 THEN 1 ELSE 2 * Pow2(k - 1)
RECURSIVE PowMod(_, _, _)
PowMod(a, e, p) == IF e = 0 THEN 1 % p
                   ELSE IF e % 2 = 0 THEN PowMod((a * a) % p, e \div 2, p)
                   ELSE (a * PowMod(a, e - 1, p)) % p
Pow2Mod(k, p) == PowMod(2 % p, k, p)
Mask(p) == Pow2(Bits(p)) - 1
Half(p) == p \div 2
Val(x, p) == IF x >= Half(p) + 1 THEN x - p ELSE x
Inv(b, p) == CHOOSE i \in 0..(p - 1) : (b * i) % p = 1
B(x) == IF x THEN 1 ELSE 0

RECURSIVE Shl(_, _, _), Shr(_, _, _)
Shl(a, k, p) == IF k <= Half(p)
                THEN (IF k >= Bits(p) THEN 0 ELSE ((a * Pow2(k)) & Mask(p)) % p)
                ELSE Shr(a, p - k, p)
Shr(a, k, p) == IF k <= Half(p)
                THEN (IF k >= Bits(p) THEN 0 ELSE a \div Pow2(k))
                ELSE Shl(a, p - k, p)

BinOps == <<"add", "sub", "mul", "div", "idiv", "mod_op", "pow", "shift_l", "shift_r", "bit_or", "bit_and",
            "bit_xor", "bool_or", "bool_and", "eq", "not_eq", "lesser", "greater", "lesser_eq", "greater_eq">>
UnOps == <<"prefix_sub", "complement_256", "not", "as_bool">>

Bin(op, a, b, p) ==
  CASE op = "add" -> (a + b) % p
    [] op = "sub" -> ((a - b) + p) % p
    [] op = "mul" -> (a * b) % p
    [] op = "div" -> IF b = 0 THEN Err ELSE (a * Inv(b, p)) % p
    [] op = "idiv" -> IF b = 0 THEN Err ELSE a \div b
    [] op = "mod_op" -> IF b = 0 THEN Err ELSE a % b
    [] op = "pow" -> PowMod(a, b, p)
    [] op = "shift_l" -> Shl(a, b, p)
    [] op = "shift_r" -> Shr(a, b, p)
    [] op = "bit_or" -> (a | b) % p
    [] op = "bit_and" -> (a & b) % p
    [] op = "bit_xor" -> (a ^^ b) % p
    [] op = "bool_or" -> B(a # 0 \/ b # 0)
    [] op = "bool_and" -> B(a # 0 /\ b # 0)
    [] op = "eq" -> B(a = b)
    [] op = "not_eq" -> B(a # b)
    [] op = "lesser" -> B(Val(a, p) < Val(b, p))
    [] op = "greater" -> B(Val(a, p) > Val(b, p))
    [] op = "lesser_eq" -> B(Val(a, p) <= Val(b, p))
    [] op = "greater_eq" -> B(Val(a, p) >= Val(b, p))
Un(op, a, p) ==
  CASE op = "prefix_sub" -> (p - a) % p
    [] op = "complement_256" -> (((Pow2Mod(256, p) - 1 - a) % p) + p) % p
    [] op = "not" -> B(a = 0)
    [] op = "as_bool" -> B(a # 0)
=============================================================================
