SPECIFICATION Spec
CONSTANTS
  N = 6
  Alphabet = {"/", "*", "n", "a", "e", "q"}
INVARIANT Emit
CHECK_DEADLOCK FALSE
