SPECIFICATION Spec
CONSTANTS
  N = 6
  Alphabet = {"/", "*", "n", "a", "e", "q"}
INVARIANT L1Agree
INVARIANT L1RefSane
CHECK_DEADLOCK FALSE
