SPECIFICATION Spec
INVARIANT Valid
POSTCONDITION Accepted
CHECK_DEADLOCK FALSE
