----------------------------- MODULE Includes -----------------------------
(***************************************************************************)
(* Include resolution (parser/src/include_logic.rs FileStack, parse_files  *)
(* loop in parser/src/lib.rs).  C19 (also C02: unresolved include).        *)
(*                                                                         *)
(* A project: files Files, each living in "src" or "lib"; include edges    *)
(* inc \subseteq Files \X (Files \cup {Missing}); Named: the files given   *)
(* on the command line (a sequence); the library option -L lib.            *)
(* An edge resolves locally when both ends live in the same directory,     *)
(* through the library directory when the target lives in lib, and not at  *)
(* all when the target is Missing (or lives in src and is included from    *)
(* lib by its bare name).                                                  *)
(*                                                                         *)
(* Ref : the files read are exactly those reachable from Named through     *)
(*       resolvable edges, each exactly once; the machine terminates; the  *)
(*       definitions of a file are analysed iff it is Named; every         *)
(*       unresolvable edge yields one error at the include statement.      *)
(* Impl: the FileStack machine (stack, black_paths, user_inputs), one      *)
(*       action per take_next / add_include.  Paths are [f, form]; form    *)
(*       "lib" is the un-canonical spelling `<libdir>/<name>` that the     *)
(*       pinned commit pushed for library hits (Orig = TRUE).              *)
(***************************************************************************)
EXTENDS Integers, Sequences, FiniteSets, TLC, Json, SequencesExt

CONSTANTS Files, Missing, Orig, MaxNamed

VARIABLES loc,        \* [Files -> {"src", "lib"}]
          inc,        \* set of <<f, g>> edges, g \in Files \cup {Missing}
          named,      \* sequence of distinct files (command-line order)
          stack, black, userInputs, todoInc, curFile, reads, errors, pc
vars == <<loc, inc, named, stack, black, userInputs, todoInc, curFile, reads, errors, pc>>

Canon(f) == [f |-> f, form |-> "canon"]
LibPath(f) == [f |-> f, form |-> IF Orig THEN "lib" ELSE "canon"]

\* how an edge resolves: "local", "library", "none"
Resolve(f, g) == IF g = Missing THEN "none"
                 ELSE IF loc[f] = loc[g] THEN "local"
                 ELSE IF loc[g] = "lib" THEN "library"       \* bare name found through -L lib
                 ELSE "none"                                    \* a lib file including a src file by its bare name

Seqs(S, n) == UNION {{q \in [1..k -> S] : \A a, b \in 1..k : a # b => q[a] # q[b]} : k \in 1..n}

Init == /\ loc \in [Files -> {"src", "lib"}]
        /\ inc \in SUBSET (Files \X (Files \cup {Missing}))
        /\ named \in Seqs(Files, MaxNamed)
        /\ stack = [k \in 1..Len(named) |-> Canon(named[k])]
        /\ userInputs = {Canon(named[k]) : k \in 1..Len(named)}
        /\ black = {} /\ todoInc = <<>> /\ curFile = Missing /\ reads = <<>> /\ errors = {} /\ pc = "take"

\* take_next: pop until a path that is not black-listed
TakeNext == /\ pc = "take" /\ stack # <<>>
            /\ LET p == stack[Len(stack)] IN
               /\ stack' = SubSeq(stack, 1, Len(stack) - 1)
               /\ IF p \in black
                  THEN UNCHANGED <<black, curFile, reads, todoInc, pc>>
                  ELSE /\ black' = black \cup {p}
                       /\ curFile' = p.f
                       /\ reads' = Append(reads, [f |-> p.f, user |-> p \in userInputs])
                       /\ todoInc' = SetToSeq({e \in inc : e[1] = p.f})
                       /\ pc' = "include"
            /\ UNCHANGED <<loc, inc, named, userInputs, errors>>

\* add_include for the next include statement of the current file
AddInclude == /\ pc = "include" /\ todoInc # <<>>
              /\ LET e == Head(todoInc)
                     how == Resolve(e[1], e[2]) IN
                 /\ todoInc' = Tail(todoInc)
                 /\ CASE how = "local" -> /\ stack' = IF Canon(e[2]) \in black THEN stack ELSE Append(stack, Canon(e[2]))
                                          /\ UNCHANGED errors
                      [] how = "library" -> /\ stack' = Append(stack, LibPath(e[2]))
                                            /\ UNCHANGED errors
                      [] how = "none" -> /\ errors' = errors \cup {e}
                                         /\ UNCHANGED stack
              /\ UNCHANGED <<loc, inc, named, black, userInputs, curFile, reads, pc>>
EndIncludes == /\ pc = "include" /\ todoInc = <<>>
               /\ pc' = "take"
               /\ UNCHANGED <<loc, inc, named, stack, black, userInputs, todoInc, curFile, reads, errors>>
Finish == /\ pc = "take" /\ stack = <<>>
          /\ pc' = "done"
          /\ UNCHANGED <<loc, inc, named, stack, black, userInputs, todoInc, curFile, reads, errors>>
Next == TakeNext \/ AddInclude \/ EndIncludes \/ Finish
Spec == Init /\ [][Next]_vars /\ WF_vars(Next)

(* ------------------------------ Ref ---------------------------------- *)
NamedSet == {named[k] : k \in 1..Len(named)}
RECURSIVE ReachGo(_)
ReachGo(S) == LET nxt == {e[2] : e \in {x \in inc : x[1] \in S /\ x[2] # Missing /\ Resolve(x[1], x[2]) # "none"}} \ S IN
              IF nxt = {} THEN S ELSE ReachGo(S \cup nxt)
Reachable == ReachGo(NamedSet)
Unresolved == {e \in inc : e[1] \in Reachable /\ Resolve(e[1], e[2]) = "none"}
ReadFiles == {reads[k].f : k \in 1..Len(reads)}
Done == pc = "done"
EachOnce == \A a, b \in 1..Len(reads) : a # b => reads[a].f # reads[b].f
ReadsAreReachable == Done => ReadFiles = Reachable
UserIffNamed == \A k \in 1..Len(reads) : reads[k].user <=> (reads[k].f \in NamedSet)
ErrorsExact == Done => errors = Unresolved
Terminates == <>Done

Emit == Done => PrintT(<<"CASE", ToJson([loc |-> loc, inc |-> SetToSeq(inc), named |-> named,
                                       reachable |-> SetToSeq(Reachable), unresolved |-> SetToSeq(Unresolved)])>>)
=============================================================================
