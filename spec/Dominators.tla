--------------------------- MODULE Dominators ---------------------------
(***************************************************************************)
(* Dominators, immediate dominators, dominator-tree children, dominance    *)
(* frontiers (program_structure/src/static_single_assignment/              *)
(* dominator_tree.rs).  C15; reused by CfgBuild (C12) and Ssa (C14).       *)
(*                                                                         *)
(* Ref : path-based definitions.  Imp : the algorithm as the code does it  *)
(* (iterative intersection; candidate-set subtraction with its `<= 1`      *)
(* assertion; frontier walk from join nodes only).                         *)
(* Graph: nodes 0..n-1, entry 0, E a set of <<a, b>> edges.                *)
(***************************************************************************)
EXTENDS Naturals, Sequences, FiniteSets, TLC, Json, SequencesExt

CONSTANTS MaxN

VARIABLES n, E, stage,
          rdom, ridom   \* Ref's Dom and idom of the completed graph (computed once per graph)

Nodes(k) == 0..(k-1)
Succ(EE, a) == {e[2] : e \in {x \in EE : x[1] = a}}
Pred(EE, b) == {e[1] : e \in {x \in EE : x[2] = b}}

(* ------------------------------ Ref ---------------------------------- *)
\* nodes reachable from 0 in the graph without node d
RECURSIVE ReachGo(_, _, _)
ReachGo(EE, seen, d) ==
  LET nxt == {b \in UNION {Succ(EE, a) : a \in seen} : b # d /\ b \notin seen} IN
  IF nxt = {} THEN seen ELSE ReachGo(EE, seen \cup nxt, d)
Reach(EE, d) == IF d = 0 THEN {} ELSE ReachGo(EE, {0}, d)
AllReachable(k, EE) == ReachGo(EE, {0}, k) = Nodes(k)   \* k is not a node: nothing removed

\* d dominates x iff every path from the entry to x goes through d
RefDom(k, EE, x) == {d \in Nodes(k) : d = x \/ x \notin Reach(EE, d)}
RefSDom(k, EE, x) == RefDom(k, EE, x) \ {x}
\* the closest strict dominator: the strict dominator that all other strict dominators dominate
RefIdom(k, EE, x) == LET S == RefSDom(k, EE, x) IN
                     IF S = {} THEN -1
                     ELSE CHOOSE d \in S : \A o \in S : o \in RefDom(k, EE, d)
RefKids(k, EE, x) == {y \in Nodes(k) : RefIdom(k, EE, y) = x}
RefDF(k, EE, i) == {j \in Nodes(k) : /\ \E q \in Pred(EE, j) : i \in RefDom(k, EE, q)
                                      /\ ~(i \in RefDom(k, EE, j) /\ i # j)}

(* ------------------------------ Imp ---------------------------------- *)
\* compute_dominators: sweep i = 1..n-1 in order until nothing changes
RECURSIVE Inter(_, _)
Inter(S, dom) == IF S = {} THEN {} ELSE
                 LET j == CHOOSE x \in S : TRUE IN
                 IF S = {j} THEN dom[j] ELSE dom[j] \cap Inter(S \ {j}, dom)
RECURSIVE Sweep(_, _, _, _, _)
Sweep(k, EE, dom, i, changed) ==
  IF i >= k THEN <<dom, changed>>
  ELSE LET P == Pred(EE, i)
           nd == (IF P = {} THEN Nodes(k) ELSE Inter(P, dom)) \cup {i} IN
       IF nd # dom[i] THEN Sweep(k, EE, [dom EXCEPT ![i] = nd], i + 1, TRUE)
                      ELSE Sweep(k, EE, dom, i + 1, changed)
RECURSIVE Iterate(_, _, _)
Iterate(k, EE, dom) == LET r == Sweep(k, EE, dom, 1, FALSE) IN
                       IF r[2] THEN Iterate(k, EE, r[1]) ELSE r[1]
ImpDom(k, EE) == Iterate(k, EE, [x \in Nodes(k) |-> IF x = 0 THEN {0} ELSE Nodes(k)])

\* compute_immediate_dominators: candidates minus the strict up-set of the candidates.
\* (the `if all_dominators.contains(j) continue` shortcut does not change the union)
ImpCand(k, EE, dom, i) ==
  LET c == dom[i] \ {i} IN
  IF Cardinality(c) > 1 THEN c \ UNION {dom[j] \ {j} : j \in c} ELSE c
ImpAssertOk(k, EE, dom) == \A i \in Nodes(k) : Cardinality(ImpCand(k, EE, dom, i)) <= 1
ImpIdom(k, EE, dom, i) == LET c == ImpCand(k, EE, dom, i) IN
                          IF c = {} THEN -1 ELSE CHOOSE j \in c : TRUE
ImpIdomF(k, EE, dom) == [i \in Nodes(k) |-> ImpIdom(k, EE, dom, i)]
ImpKids(k, idom, x) == {y \in Nodes(k) : idom[y] = x}

\* compute_dominance_frontier: for join nodes i, walk up from each predecessor until idom(i)
RECURSIVE Walk(_, _, _, _)
Walk(idom, kk, stop, acc) ==
  IF kk = stop THEN acc
  ELSE IF idom[kk] = -1 THEN acc \cup {kk} ELSE Walk(idom, idom[kk], stop, acc \cup {kk})
ImpDFOwners(EE, idom, i) ==   \* the nodes whose frontier receives i
  IF Cardinality(Pred(EE, i)) > 1
  THEN UNION {Walk(idom, j, idom[i], {}) : j \in Pred(EE, i)}
  ELSE {}
ImpDF(k, EE, idom, x) == {i \in Nodes(k) : x \in ImpDFOwners(EE, idom, i)}

(* ---------------------------- enumeration ----------------------------- *)
Pairs(k) == {p \in Nodes(k) \X Nodes(k) : p[2] # 0}    \* the entry has no predecessor

\* Graphs are built one node's out-edges at a time so that TLC's workers share the enumeration;
\* a graph is complete when stage = n, and only complete graphs with all nodes reachable are judged.
RDomF(k, EE) == LET without == [d \in Nodes(k) |-> Reach(EE, d)] IN
                [x \in Nodes(k) |-> {d \in Nodes(k) : d = x \/ x \notin without[d]}]
RIdomF(k, dm) == [x \in Nodes(k) |-> LET S == dm[x] \ {x} IN
                    IF S = {} THEN -1 ELSE CHOOSE d \in S : \A o \in S : o \in dm[d]]
Init == /\ n \in 1..MaxN
        /\ E = {}
        /\ stage = 0
        /\ rdom = <<>> /\ ridom = <<>>
Next == /\ stage < n
        /\ \E S \in SUBSET (Nodes(n) \ {0}) : E' = E \cup {<<stage, b>> : b \in S}
        /\ stage' = stage + 1
        /\ n' = n
        /\ IF stage' = n /\ AllReachable(n, E')
           THEN rdom' = RDomF(n, E') /\ ridom' = RIdomF(n, rdom')
           ELSE rdom' = <<>> /\ ridom' = <<>>
Spec == Init /\ [][Next]_<<n, E, stage, rdom, ridom>>
Complete == stage = n /\ AllReachable(n, E)

L1 == Complete => LET dom == ImpDom(n, E)
          idom == ImpIdomF(n, E, dom)
          refIsState == /\ \A x \in Nodes(n) : rdom[x] = RefDom(n, E, x)     \* the cached values are Ref's
                        /\ \A x \in Nodes(n) : ridom[x] = RefIdom(n, E, x) IN
      /\ refIsState
      /\ ImpAssertOk(n, E, dom)
      /\ dom = rdom
      /\ idom = ridom
      /\ \A x \in Nodes(n) :
            /\ ImpKids(n, idom, x) = {y \in Nodes(n) : ridom[y] = x}
            /\ ImpDF(n, E, idom, x) = {j \in Nodes(n) : /\ \E q \in Pred(E, j) : x \in rdom[q]
                                                        /\ ~(x \in rdom[j] /\ x # j)}

\* sanity of Ref: the strict dominators of a node form a chain, so the CHOOSE in RefIdom is defined
RefSane == Complete => \A x \in Nodes(n) : LET S == RefSDom(n, E, x) IN
             S # {} => \E d \in S : \A o \in S : o \in RefDom(n, E, d)

Srt(S) == SetToSortSeq(S, <)
Seq0(f(_), k) == [i \in 1..k |-> f(i - 1)]
Emit == Complete =>
        PrintT(<<"CASE", ToJson([
          n |-> n,
          e |-> SetToSeq(E),
          dom |-> [i \in 1..n |-> Srt(rdom[i - 1])],
          idom |-> [i \in 1..n |-> ridom[i - 1]],
          kids |-> [i \in 1..n |-> Srt({y \in Nodes(n) : ridom[y] = i - 1})],
          df |-> [i \in 1..n |-> Srt({j \in Nodes(n) : /\ \E q \in Pred(E, j) : (i - 1) \in rdom[q]
                                                       /\ ~((i - 1) \in rdom[j] /\ (i - 1) # j)})]])>>)
=============================================================================
