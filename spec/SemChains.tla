----------------------------- MODULE SemChains -----------------------------
(***************************************************************************)
(* Second skeleton family for the semantic properties (C09, C06, C07):     *)
(* one accumulator updated at the bottom of every nesting chain of depth   *)
(* <= Depth over {if, then-arm of if/else, else-arm of if/else, while},    *)
(* declared before the chain and used after it.  These are the shapes in   *)
(* which phi placement has to be ITERATED (an assignment under an `if`     *)
(* inside a loop needs a phi at the loop header as well) and in which a    *)
(* value flows around one or two back edges before it reaches a sink.      *)
(*   D  Sacc-in-chain  use        use = Gacc / Qacc (templates), Racc      *)
(* Token meaning (bin/sem.py instantiate): D declaration with initialiser  *)
(* (DL: a literal, so that the accumulator starts as a known constant),     *)
(* Sacc `a = a + atom`, Gacc `o <-- in1 * a`, Qacc `o <== in1 * a`,        *)
(* Racc `return a`; DA `var arr[2]`, SAv `arr[a] = atom`, Gidx / Qidx /     *)
(* Ridx: the same uses with `arr[0] - arr[1]` in place of `a`; DAv `var     *)
(* brr[a];`, Gin `o <-- in1`, Rn `return n`.                                *)
(***************************************************************************)
EXTENDS Integers, Sequences, FiniteSets, TLC, Json

CONSTANTS Depth, Template
Arms == {"if", "ifeT", "ifeE", "wh"}
RECURSIVE Build(_, _)
Build(chain, bottom) == IF chain = <<>> THEN bottom
                ELSE LET h == Head(chain)
                         inner == Build(Tail(chain), bottom) IN
                     CASE h = "if" -> <<"if">> \o inner \o <<"}">>
                       [] h = "wh" -> <<"wh">> \o inner \o <<"}">>
                       [] h = "ifeT" -> <<"ife">> \o inner \o <<"}", "}">>
                       [] h = "ifeE" -> <<"ife", "}">> \o inner \o <<"}">>
\* the same constant assigned at every level of the chain (before the nested arm), the variable declared without initialiser:
\* several paths agree on the constant, the path around the chain leaves the default 0
RECURSIVE BuildK(_)
BuildK(chain) == IF chain = <<>> THEN <<>>
                 ELSE LET h == Head(chain)
                          inner == <<"SK">> \o BuildK(Tail(chain)) IN
                      CASE h = "if" -> <<"if">> \o inner \o <<"}">>
                        [] h = "wh" -> <<"wh">> \o inner \o <<"}">>
                        [] h = "ifeT" -> <<"ife">> \o inner \o <<"}", "}">>
                        [] h = "ifeE" -> <<"ife", "}">> \o inner \o <<"}">>
Chains == UNION {[1..d -> Arms] : d \in 1..Depth}
Uses == IF Template THEN {"Gacc", "Qacc"} ELSE {"Racc"}
IdxUses == IF Template THEN {"Gidx", "Qidx"} ELSE {"Ridx"}
VARIABLE c
\* family "acc": accumulator; family "cursor": a write cursor -- `arr[a] = atom; a = a + 1` at the bottom of the chain (also with an
\* empty chain), the array used afterwards: the cursor reaches a sink only through the subscript of an assignment target
Init == \/ c \in {"acc"} \X Chains \X Uses \X {0, 1} \X {"D", "DL"}   \* a second update after the chain (0 / 1); initialiser: expression / literal
        \/ c \in {"cursor"} \X (Chains \cup {<<>>}) \X IdxUses \X {0} \X {"DL"}
        \/ c \in {"const"} \X Chains \X Uses \X {0} \X {"D0"}
        \* family "dim": the first local only sizes a local array that is never used; the output does not depend on it
        \/ c \in {"dim"} \X {<<>>} \X (IF Template THEN {"Gin"} ELSE {"Rn"}) \X {0, 1} \X {"D", "DL"}
        \* family "viasig" (templates): the accumulator flows into an intermediate signal (`t <-- acc`), which alone is read by an
        \* assertion (At) or a branch condition (It): a sink reached only through a signal that is neither exported nor constrained
        \/ Template /\ c \in {"viasig"} \X (Chains \cup {<<>>}) \X {"At", "It"} \X {0} \X {"D", "DL"}
Next == UNCHANGED c
Spec == Init /\ [][Next]_c
Toks == IF c[1] = "dim" THEN <<c[5]>> \o (IF c[4] = 1 THEN <<"Sacc">> ELSE <<>>) \o <<"DAv", c[3], "}">>
        ELSE IF c[1] = "viasig" THEN <<c[5]>> \o Build(c[2], <<"Sacc">>) \o <<"Gt", c[3], "}">>
        ELSE IF c[1] = "const" THEN <<"D0">> \o BuildK(c[2]) \o <<c[3], "}">>
        ELSE IF c[1] = "acc" THEN <<c[5]>> \o Build(c[2], <<"Sacc">>) \o (IF c[4] = 1 THEN <<"Sacc">> ELSE <<>>) \o <<c[3], "}">>
        ELSE <<"DL", "DA">> \o Build(c[2], <<"SAv", "Sacc">>) \o <<c[3], "}">>
Emit == PrintT(<<"CASE", ToJson([toks |-> Toks])>>)
=============================================================================
