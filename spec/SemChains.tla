----------------------------- MODULE SemChains -----------------------------
(***************************************************************************)
(* Second skeleton family for the semantic properties (C09, C06, C07):     *)
(* one accumulator updated at the bottom of every nesting chain of depth   *)
(* <= Depth over {if, then-arm of if/else, else-arm of if/else, while},    *)
(* declared before the chain and used after it.  These are the shapes in   *)
(* which phi placement has to be ITERATED (an assignment under an `if`     *)
(* inside a loop needs a phi at the loop header as well) and in which a    *)
(* value flows around one or two back edges before it reaches a sink.      *)
(*   D  Sacc-in-chain  use        use = Gacc / Qacc (templates), Racc      *)
(* Token meaning (bin/sem.py instantiate): D declaration with initialiser, *)
(* Sacc `a = a + atom`, Gacc `o <-- in1 * a`, Qacc `o <== in1 * a`,        *)
(* Racc `return a`.                                                        *)
(***************************************************************************)
EXTENDS Integers, Sequences, FiniteSets, TLC, Json

CONSTANTS Depth, Template
Arms == {"if", "ifeT", "ifeE", "wh"}
RECURSIVE Build(_)
Build(chain) == IF chain = <<>> THEN <<"Sacc">>
                ELSE LET h == Head(chain)
                         inner == Build(Tail(chain)) IN
                     CASE h = "if" -> <<"if">> \o inner \o <<"}">>
                       [] h = "wh" -> <<"wh">> \o inner \o <<"}">>
                       [] h = "ifeT" -> <<"ife">> \o inner \o <<"}", "}">>
                       [] h = "ifeE" -> <<"ife", "}">> \o inner \o <<"}">>
Chains == UNION {[1..d -> Arms] : d \in 1..Depth}
Uses == IF Template THEN {"Gacc", "Qacc"} ELSE {"Racc"}
VARIABLE c
Init == c \in Chains \X Uses \X {0, 1}      \* last component: a second update after the chain (0 / 1)
Next == UNCHANGED c
Spec == Init /\ [][Next]_c
Emit == PrintT(<<"CASE", ToJson([toks |-> <<"D">> \o Build(c[1]) \o (IF c[3] = 1 THEN <<"Sacc">> ELSE <<>>) \o <<c[2], "}">>])>>)
=============================================================================
