------------------------------ MODULE SemGen ------------------------------
(***************************************************************************)
(* Statement skeletons of the micro-programs for the semantic properties   *)
(* (C06, C07, C09, C20): a derivation machine over                         *)
(*   D0 (declaration without initialiser)   D (declaration = expression)   *)
(*   S (assignment)   if { .. }   ife { .. } { .. }   wh { .. }            *)
(*   G (signal <-- expression)   Q (signal <== expression)   A (assert)    *)
(* TLC enumerates every skeleton within the step bound -- the data-flow    *)
(* shapes (straight, if, if/else, while, while in if, nested while, ...)   *)
(* where a join or fix-point rule can go wrong; the harness instantiates   *)
(* variables, operators (all 20 infix, 3 prefix, the ternary) and literals *)
(* (0 .. P+1) by seeded rotation, several instances per skeleton.          *)
(***************************************************************************)
EXTENDS Integers, Sequences, FiniteSets, TLC, Json

CONSTANTS MaxSteps, MaxLen, Template,     \* Template = TRUE: signal statements G / Q allowed
          Arrays                            \* Arrays = TRUE: local arrays (declaration, element assignment)

VARIABLES form, steps
vars == <<form, steps>>
NT == {"<List>", "<Stmt>"}
Leaves == {<<"D0">>, <<"D">>, <<"S">>, <<"A">>} \cup (IF Template THEN {<<"G">>, <<"Q">>} ELSE {})
          \cup (IF Arrays THEN {<<"DA">>, <<"SA">>} ELSE {})      \* DA: var arr[2];  SA: arr[index] = expression
P == [nt \in NT |->
  IF nt = "<List>" THEN {<<"}">>, <<"<Stmt>", "<List>">>}
  ELSE Leaves \cup {<<"if", "<List>">>, <<"ife", "<List>", "<List>">>, <<"wh", "<List>">>}]
FirstNT(f) == LET idx == {k \in 1..Len(f) : f[k] \in NT} IN IF idx = {} THEN 0 ELSE CHOOSE k \in idx : \A j \in idx : k <= j
Complete(f) == FirstNT(f) = 0
RECURSIVE Need(_)
Need(f) == IF f = <<>> THEN 0 ELSE (IF Head(f) \in NT THEN 1 ELSE 0) + Need(Tail(f))
Init == form = <<"<List>">> /\ steps = 0
Next == /\ ~Complete(form)
        /\ LET k == FirstNT(form) IN
           \E rhs \in P[form[k]] :
              /\ form' = SubSeq(form, 1, k - 1) \o rhs \o SubSeq(form, k + 1, Len(form))
              /\ steps' = steps + 1
              /\ Len(form') <= MaxLen
              /\ steps' + Need(form') <= MaxSteps
Spec == Init /\ [][Next]_vars
Emit == Complete(form) => PrintT(<<"CASE", ToJson([toks |-> form])>>)
=============================================================================
