SPECIFICATION Spec
CONSTANTS
  N = 6
  Alphabet = {"/", "*", "n", "a", "e", "q"}
INVARIANT L1AgreeOrig
CHECK_DEADLOCK FALSE
