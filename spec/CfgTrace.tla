----------------------------- MODULE CfgTrace -----------------------------
(***************************************************************************)
(* Trace validation of the CFGs and SSA forms the real code builds (C12,   *)
(* C13, C14).  One record per generated definition:                        *)
(*   tree  : the structured source program, flattened: a sequence of nodes *)
(*           [k, id, kids, t, e, depth] (k in s, r, if, ife, wh, for, blk; *)
(*           id = the literal that identifies the statement / condition in  *)
(*           the rendered text; for: id = init, id+1 = cond, id+2 = step;   *)
(*           kids = child node indices of a block; t / e = arm node index); *)
(*           root = node 1 (a blk)                                          *)
(*   g     : the CFG exported from the real code before SSA                 *)
(*   ssa   : the CFG exported after SSA                                     *)
(*           blocks [preds, succs, depth, dom, stmts]; a statement is       *)
(*           [k, tag, t, f, w, wv, reads, phi] with 1-based block indices   *)
(* Static clauses (C12, C14) are evaluated once per record; the dynamic    *)
(* ones (C13: source run = graph walk; C14: every read sees the current     *)
(* version) are explored by TLC over EVERY decision sequence, loops         *)
(* unrolled up to MaxIter times per condition and MaxRun emissions.        *)
(***************************************************************************)
EXTENDS Integers, Sequences, FiniteSets, TLC, Json, IOUtils, Lifting

CONSTANTS MaxIter, MaxRun

Rec == ndJsonDeserialize(IOEnv.TRACE)

VARIABLES l,       \* record index
          stack,   \* source executor: continuation stack of frames [f, n]
          pos,     \* walker on g:   [b, i] next statement to look at (b = 0: stopped)
          mg,      \* the graph the Impl model (Lifting.tla) builds for the record's tree (computed once per record)
          mpos,    \* walker on mg
          spos,    \* walker on ssa: [b, i, from] (from = block we came from, for phi arguments)
          cur,     \* SSA walker: variable key -> current version (-1: not yet defined on this path)
          iters,   \* condition id -> number of times decided TRUE on this run
          run,     \* number of emissions so far
          done,    \* the source run has ended (first return reached)
          bad      \* "" or the name of the violated dynamic clause
vars == <<l, stack, pos, mg, mpos, spos, cur, iters, run, done, bad>>

SeqSet(q) == {q[j] : j \in 1..Len(q)}
R == Rec[l]
Tree == R.tree
G == R.g
S == R.ssa
NB(g) == Len(g.blocks)

(* ------------------------- C12: static clauses ------------------------- *)
Reach(g) == LET RECURSIVE Go(_)
                Go(seen) == LET nxt == UNION {SeqSet(g.blocks[b].succs) : b \in seen} \ seen IN
                            IF nxt = {} THEN seen ELSE Go(seen \cup nxt)
            IN Go({1})
\* path-based dominance on the exported graph: d dominates x iff x is unreachable without d
ReachWithout(g, d) == LET RECURSIVE Go(_)
                          Go(seen) == LET nxt == (UNION {SeqSet(g.blocks[b].succs) : b \in seen} \ seen) \ {d} IN
                                      IF nxt = {} THEN seen ELSE Go(seen \cup nxt)
                      IN IF d = 1 THEN {} ELSE Go({1})
Dominates(g, d, x) == d = x \/ x \notin ReachWithout(g, d)
LastStmt(b) == b.stmts[Len(b.stmts)]
WellFormedCore(g) ==
  LET B == 1..NB(g) IN
  IF g.blocks[1].preds # <<>> THEN "entry block has a predecessor"
  ELSE IF Reach(g) # B THEN "a block is unreachable from the entry"
  ELSE IF \E a \in B, b \in B : (b \in SeqSet(g.blocks[a].succs)) # (a \in SeqSet(g.blocks[b].preds))
       THEN "successor and predecessor sets do not mirror each other"
  ELSE IF \E b \in B : \E i \in 1..(Len(g.blocks[b].stmts) - 1) : g.blocks[b].stmts[i].k = "if"
       THEN "branch statement not last in its block"
  ELSE IF \E b \in B : Len(g.blocks[b].stmts) > 0 /\ LastStmt(g.blocks[b]).k = "if" /\
             LET st == LastStmt(g.blocks[b]) IN
             ~(st.t \in B /\ st.t \in SeqSet(g.blocks[b].succs) /\ (st.f = 0 \/ (st.f \in B /\ st.f \in SeqSet(g.blocks[b].succs))))
       THEN "branch target is not a successor block"
  ELSE IF \E b \in B : Cardinality(SeqSet(g.blocks[b].succs)) >
             (IF Len(g.blocks[b].stmts) > 0 /\ LastStmt(g.blocks[b]).k = "if" THEN 2 ELSE 1)
       THEN "too many successors"
  ELSE IF \E a \in B, b \in B : a > b /\ Dominates(g, a, b) THEN "a block dominates a block with a smaller index"
  ELSE "ok"
WellFormed(g) ==
  IF WellFormedCore(g) # "ok" THEN WellFormedCore(g)
  ELSE IF \E b \in 1..NB(g) : SeqSet(g.blocks[b].dom) # {d \in 1..NB(g) : Dominates(g, d, b)} THEN "recorded dominators differ from path-based dominance"
  ELSE "ok"

\* loop depth: every statement of the source tree has a nesting depth (number of enclosing loop bodies; a loop's
\* condition counts as outside the loop; a for's init is outside, its step inside); the block holding the statement
\* with that tag must record this depth
TagDepth(tree, tag) == LET hits == {n \in 1..Len(tree) : tree[n].k \in {"s", "n", "r", "if", "ife", "wh"} /\ tree[n].id = tag} IN
                       IF hits # {} THEN tree[CHOOSE n \in hits : TRUE].depth
                       ELSE LET fr == {n \in 1..Len(tree) : tree[n].k = "for" /\ tag \in {tree[n].id, tree[n].id + 1, tree[n].id + 2}} IN
                            IF fr = {} THEN -1
                            ELSE LET n == CHOOSE x \in fr : TRUE IN
                                 IF tag = tree[n].id + 2 THEN tree[n].depth + 1 ELSE tree[n].depth
DepthOK(tree, g) == \A b \in 1..NB(g) : \A i \in 1..Len(g.blocks[b].stmts) :
                       LET st == g.blocks[b].stmts[i] IN
                       (st.tag > 0 /\ TagDepth(tree, st.tag) >= 0) => g.blocks[b].depth = TagDepth(tree, st.tag)

(* ------------------------- C14: static clauses ------------------------- *)
Defs(g) == UNION {{<<b, i>> : i \in {j \in 1..Len(g.blocks[b].stmts) : g.blocks[b].stmts[j].w # ""}} : b \in 1..NB(g)}
SsaStatic(g) ==
  IF \E p \in Defs(g), q \in Defs(g) : p # q /\ g.blocks[p[1]].stmts[p[2]].w = g.blocks[q[1]].stmts[q[2]].w
                                        /\ g.blocks[p[1]].stmts[p[2]].wv = g.blocks[q[1]].stmts[q[2]].wv
                                        /\ g.blocks[p[1]].stmts[p[2]].wv >= 0        \* versioned locals only
  THEN "a version has two defining statements"
  ELSE IF \E b \in 1..NB(g) : \E i \in 2..Len(g.blocks[b].stmts) : g.blocks[b].stmts[i].phi /\ ~g.blocks[b].stmts[i - 1].phi
  THEN "phi statement not at the head of its block"
  ELSE IF \E b \in 1..NB(g) : \E i \in 1..Len(g.blocks[b].stmts) :
            LET st == g.blocks[b].stmts[i] IN
            ~st.phi /\ \E k \in 1..Len(st.reads) :
               LET rd == st.reads[k] IN
               rd.ver >= 0 /\ rd.v \notin SeqSet(g.params) /\
               ~\E p \in Defs(g) : /\ g.blocks[p[1]].stmts[p[2]].w = rd.v /\ g.blocks[p[1]].stmts[p[2]].wv = rd.ver
                                    /\ (IF p[1] = b THEN p[2] < i ELSE Dominates(g, p[1], b))
  THEN "a read is not dominated by the definition of its version"
  ELSE IF \E b \in 1..NB(g) : \E i \in 1..Len(g.blocks[b].stmts) :
            LET st == g.blocks[b].stmts[i] IN
            (st.w # "" /\ st.wv >= 0 /\ <<st.w, st.wv>> \notin SeqSet(g.declared)) \/
            \E k \in 1..Len(st.reads) : st.reads[k].ver >= 0 /\ <<st.reads[k].v, st.reads[k].ver>> \notin SeqSet(g.declared)
  THEN "a version is not covered by a declaration"
  ELSE IF \E b \in 1..NB(g) : \E i \in 1..Len(g.blocks[b].stmts) :
            LET st == g.blocks[b].stmts[i] IN
            (st.w \in SeqSet(g.unversioned) /\ st.wv >= 0) \/ \E k \in 1..Len(st.reads) : st.reads[k].v \in SeqSet(g.unversioned) /\ st.reads[k].ver >= 0
  THEN "a signal or component carries a version"
  ELSE "ok"

\* kind "static": a hand-written definition without a source tree: only the clauses that need none are judged
StaticVerdict == IF R.kind = "skip" THEN "ok"
                 ELSE IF WellFormed(G) # "ok" THEN WellFormed(G)
                 ELSE IF WellFormed(S) # "ok" THEN WellFormed(S)
                 ELSE IF R.kind = "ok" /\ (~DepthOK(Tree, G) \/ ~DepthOK(Tree, S)) THEN "recorded loop depth differs from the nesting of the source"
                 ELSE SsaStatic(S)

(* ---------------- the Impl model of lifting (Lifting.tla) --------------- *)
\* (L1) the model's own graph must satisfy the structural clauses; (L2') the exported graph equals the model's graph:
\* same number of blocks, and per block the same predecessors, successors, loop depth and the same sequence of tagged
\* statements with the same branch targets
Tagged(b) == SelectSeq(b.stmts, LAMBDA st : st.k = "if" \/ (st.tag > 0 /\ ~st.phi))
SameShape(m, g) ==
  /\ NB(m) = NB(g)
  /\ \A b \in 1..NB(m) :
        /\ SeqSet(m.blocks[b].preds) = SeqSet(g.blocks[b].preds)
        /\ SeqSet(m.blocks[b].succs) = SeqSet(g.blocks[b].succs)
        /\ m.blocks[b].depth = g.blocks[b].depth
        /\ LET a == Tagged(m.blocks[b])
               c == Tagged(g.blocks[b]) IN
           /\ Len(a) = Len(c)
           /\ \A i \in 1..Len(a) : a[i].tag = c[i].tag /\ (a[i].k = "if") = (c[i].k = "if") /\ (a[i].k = "if" => (a[i].t = c[i].t /\ a[i].f = c[i].f))
ModelVerdict == IF R.kind # "ok" THEN "ok"
                ELSE IF WellFormedCore(mg) # "ok" THEN "MODEL: " \o WellFormedCore(mg)
                ELSE IF ~DepthOK(Tree, mg) THEN "MODEL: loop depth differs from the nesting of the source"
                ELSE "ok"
\* Impl model of phi placement (static_single_assignment/mod.rs insert_phi_statements): a work list over the blocks, a phi
\* for every variable written in a block at every block of its dominance frontier, blocks that received a phi re-queued:
\* the phi blocks of a variable are the ITERATED dominance frontier of the blocks assigning it (recorded dominators are
\* used; they are checked against path-based dominance by WellFormed)
Dom(g, a, b) == a \in SeqSet(g.blocks[b].dom)
DF(g, x) == {y \in 1..NB(g) : (\E p \in SeqSet(g.blocks[y].preds) : Dom(g, x, p)) /\ ~(x # y /\ Dom(g, x, y))}
Writes(g, v) == {b \in 1..NB(g) : \E i \in 1..Len(g.blocks[b].stmts) : g.blocks[b].stmts[i].w = v /\ ~g.blocks[b].stmts[i].phi}
RECURSIVE IDF(_, _, _)
IDF(g, base, acc) == LET nxt == UNION {DF(g, x) : x \in base \cup acc} IN
                     IF nxt \subseteq acc THEN acc ELSE IDF(g, base, acc \cup nxt)
PhiBlocks(g, v) == {b \in 1..NB(g) : \E i \in 1..Len(g.blocks[b].stmts) : g.blocks[b].stmts[i].phi /\ g.blocks[b].stmts[i].w = v}
PhiAsModel == \A v \in SeqSet(S.vars) : PhiBlocks(S, v) = IDF(G, Writes(G, v), {})
DriftVerdict == IF R.kind # "ok" THEN "ok"
                ELSE IF ~SameShape(mg, G) THEN "DRIFT: the exported graph is not the graph Lifting.tla builds"
                ELSE IF ~PhiAsModel THEN "DRIFT: phi statements are not placed at the iterated dominance frontier of the assignments"
                ELSE "ok"

(* --------------------- C13: source executor (Ref) ---------------------- *)
\* frames: [f |-> "node", n] | [f |-> "forloop", n] | [f |-> "forstep", n]
PushKids(st, kids) == st \o [j \in 1..Len(kids) |-> [f |-> "node", n |-> kids[Len(kids) + 1 - j]]]
\* one emission of the source program under decision d: <<tag, stack', ended, isCond>>; tag = 0: program fell off its end
RECURSIVE SrcStep(_, _)
SrcStep(st, d) ==
  IF st = <<>> THEN <<0, <<>>, TRUE, FALSE>>
  ELSE LET fr == st[Len(st)]
           rest == SubSeq(st, 1, Len(st) - 1)
           nd == Tree[fr.n] IN
    IF fr.f = "forloop" THEN
         <<nd.id + 1, IF d THEN PushKids(rest \o <<[f |-> "forloop", n |-> fr.n], [f |-> "forstep", n |-> fr.n]>>, <<nd.t>>) ELSE rest, FALSE, TRUE>>
    ELSE IF fr.f = "forstep" THEN <<nd.id + 2, rest, FALSE, FALSE>>
    ELSE CASE nd.k \in {"s", "n"} -> <<nd.id, rest, FALSE, FALSE>>
           [] nd.k = "d" -> SrcStep(rest, d)                       \* a declaration without initialiser: nothing observable
           [] nd.k = "r" -> <<nd.id, <<>>, TRUE, FALSE>>
           [] nd.k = "blk" -> SrcStep(PushKids(rest, nd.kids), d)
           [] nd.k = "if" -> <<nd.id, IF d THEN PushKids(rest, <<nd.t>>) ELSE rest, FALSE, TRUE>>
           [] nd.k = "ife" -> <<nd.id, PushKids(rest, <<IF d THEN nd.t ELSE nd.e>>), FALSE, TRUE>>
           [] nd.k = "wh" -> <<nd.id, IF d THEN PushKids(rest \o <<fr>>, <<nd.t>>) ELSE rest, FALSE, TRUE>>
           [] nd.k = "for" -> <<nd.id, rest \o <<[f |-> "forloop", n |-> fr.n]>>, FALSE, FALSE>>

(* ------------------------- the graph walkers --------------------------- *)
\* next statement with a tag (emission) from position p in graph g under decision d: <<tag, pos', visitedPhiInfo>>
\* blocks without branch continue to their unique successor; b = 0 means stopped
OtherSucc(blk, t) == LET o == SeqSet(blk.succs) \ {t} IN IF Cardinality(o) = 1 THEN CHOOSE x \in o : TRUE ELSE 0
RECURSIVE Walk(_, _, _, _)
Walk(g, p, d, fuel) ==
  IF p.b = 0 \/ fuel = 0 THEN <<0, [b |-> 0, i |-> 1, from |-> 0]>>
  ELSE LET blk == g.blocks[p.b] IN
    IF p.i > Len(blk.stmts)
    THEN (IF Cardinality(SeqSet(blk.succs)) = 1
          THEN Walk(g, [b |-> CHOOSE x \in SeqSet(blk.succs) : TRUE, i |-> 1, from |-> p.b], d, fuel - 1)
          ELSE <<0, [b |-> 0, i |-> 1, from |-> 0]>>)
    ELSE LET st == blk.stmts[p.i] IN
      IF st.k = "if" THEN
           LET target == IF d THEN st.t ELSE (IF st.f # 0 THEN st.f ELSE OtherSucc(blk, st.t)) IN
           <<st.tag, [b |-> target, i |-> 1, from |-> p.b]>>
      ELSE IF st.tag > 0 /\ ~st.phi THEN <<st.tag, [b |-> p.b, i |-> p.i + 1, from |-> p.from]>>
      ELSE Walk(g, [b |-> p.b, i |-> p.i + 1, from |-> p.from], d, fuel - 1)

\* SSA walker: the statements passed over between two emissions (phis, declarations and the emitting statement itself)
\* are checked against / update the current versions.  Returns <<cur', why>>.
RECURSIVE SsaScan(_, _, _, _, _)
SsaScan(p, d, c, fuel, first) ==
  IF p.b = 0 \/ fuel = 0 THEN <<c, "">>
  ELSE LET blk == S.blocks[p.b] IN
    IF p.i > Len(blk.stmts)
    THEN (IF Cardinality(SeqSet(blk.succs)) = 1
          THEN SsaScan([b |-> CHOOSE x \in SeqSet(blk.succs) : TRUE, i |-> 1, from |-> p.b], d, c, fuel - 1, first)
          ELSE <<c, "">>)
    ELSE LET st == blk.stmts[p.i]
             readsOK == \A k \in 1..Len(st.reads) :
                           LET rd == st.reads[k] IN
                           (rd.ver >= 0 /\ rd.v \in DOMAIN c) => c[rd.v] = rd.ver
             phiOK == (st.w \in DOMAIN c /\ c[st.w] >= 0) => c[st.w] \in SeqSet(st.phiargs)
             c2 == IF st.w # "" /\ st.wv >= 0 /\ st.w \in DOMAIN c THEN [c EXCEPT ![st.w] = st.wv] ELSE c IN
      IF st.phi THEN (IF ~phiOK THEN <<c, "phi lacks the version that reaches it on this path">>
                      ELSE SsaScan([b |-> p.b, i |-> p.i + 1, from |-> p.from], d, c2, fuel - 1, first))
      ELSE IF ~readsOK THEN <<c, "a read does not name the most recently assigned version on this path">>
      ELSE IF st.k = "if" \/ st.tag > 0 THEN <<c2, "">>          \* the emitting statement: stop after it
      ELSE SsaScan([b |-> p.b, i |-> p.i + 1, from |-> p.from], d, c2, fuel - 1, first)

(* ---------------------------- the machine ------------------------------ *)
InitCur == [v \in SeqSet(S.vars) |-> IF v \in SeqSet(S.params) THEN 0 ELSE -1]
Load(k) == /\ l' = k
           /\ stack' = IF k <= Len(Rec) THEN <<[f |-> "node", n |-> 1]>> ELSE <<>>
           /\ pos' = [b |-> 1, i |-> 1, from |-> 0]
           /\ mpos' = [b |-> 1, i |-> 1, from |-> 0]
           /\ mg' = IF k <= Len(Rec) /\ Rec[k].kind # "skip" THEN Lift(Rec[k].tree) ELSE [blocks |-> <<>>]
           /\ spos' = [b |-> 1, i |-> 1, from |-> 0]
           /\ cur' = IF k <= Len(Rec) /\ Rec[k].kind # "skip" THEN [v \in SeqSet(Rec[k].ssa.vars) |-> IF v \in SeqSet(Rec[k].ssa.params) THEN 0 ELSE -1] ELSE <<>>
           /\ iters' = <<>> /\ run' = 0 /\ done' = FALSE /\ bad' = ""
Init == /\ l = 1
        /\ stack = IF Len(Rec) >= 1 THEN <<[f |-> "node", n |-> 1]>> ELSE <<>>
        /\ pos = [b |-> 1, i |-> 1, from |-> 0] /\ spos = [b |-> 1, i |-> 1, from |-> 0]
        /\ mpos = [b |-> 1, i |-> 1, from |-> 0]
        /\ mg = IF Len(Rec) >= 1 /\ Rec[1].kind # "skip" THEN Lift(Rec[1].tree) ELSE [blocks |-> <<>>]
        /\ cur = IF Len(Rec) >= 1 /\ Rec[1].kind # "skip" THEN [v \in SeqSet(Rec[1].ssa.vars) |-> IF v \in SeqSet(Rec[1].ssa.params) THEN 0 ELSE -1] ELSE <<>>
        /\ iters = <<>> /\ run = 0 /\ done = FALSE /\ bad = ""

IterOf(tag) == IF tag \in DOMAIN iters THEN iters[tag] ELSE 0
Step(d) ==
  /\ l <= Len(Rec) /\ R.kind = "ok" /\ ~done /\ bad = "" /\ run < MaxRun
  /\ LET s == SrcStep(stack, d)
         tag == s[1]
         w == Walk(G, pos, d, 200)
         wm == Walk(mg, mpos, d, 200)
         ws == Walk(S, spos, d, 200)
         sc == SsaScan(spos, d, cur, 200, TRUE) IN
     /\ (s[4] /\ d) => IterOf(tag) < MaxIter          \* unrolling bound: a condition is decided TRUE at most MaxIter times
     /\ stack' = s[2] /\ done' = (s[3] \/ tag = 0)
     /\ pos' = w[2] /\ spos' = ws[2] /\ cur' = sc[1] /\ mpos' = wm[2] /\ UNCHANGED mg
     /\ iters' = IF s[4] /\ d THEN (IF tag \in DOMAIN iters THEN [iters EXCEPT ![tag] = @ + 1] ELSE iters @@ (tag :> 1)) ELSE iters
     /\ run' = run + 1
     /\ bad' = IF tag # 0 /\ wm[1] # tag THEN "MODEL: the walk of the model's graph does not meet the statement the source executes"
               ELSE IF tag # 0 /\ w[1] # tag THEN "the graph walk does not meet the statement the source executes"
               ELSE IF tag # 0 /\ ws[1] # tag THEN "the SSA graph walk does not meet the statement the source executes"
               ELSE IF tag # 0 THEN sc[2] ELSE ""
     /\ UNCHANGED l
NextRecord == /\ l <= Len(Rec) /\ run = 0 /\ Load(l + 1)       \* taken from the initial state of each record
Next == (\E d \in BOOLEAN : Step(d)) \/ NextRecord
Spec == Init /\ [][Next]_vars

Static == (l <= Len(Rec) /\ run = 0) => (StaticVerdict = "ok" \/ PrintT(<<"REJECT", ToJson([idx |-> l, why |-> StaticVerdict])>>))
Model == (l <= Len(Rec) /\ run = 0) => (ModelVerdict = "ok" \/ PrintT(<<"REJECT", ToJson([idx |-> l, why |-> ModelVerdict])>>))
Drift == (l <= Len(Rec) /\ run = 0) => (DriftVerdict = "ok" \/ PrintT(<<"REJECT", ToJson([idx |-> l, why |-> DriftVerdict])>>))
Dynamic == (bad # "") => PrintT(<<"REJECT", ToJson([idx |-> l, why |-> bad])>>)
Consumed == (l = Len(Rec) + 1) => PrintT(<<"CONSUMED", ToJson([n |-> Len(Rec)])>>)
=============================================================================
