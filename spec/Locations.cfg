SPECIFICATION Spec
CONSTANTS MaxChars = 4
INVARIANT Sane
CHECK_DEADLOCK FALSE
