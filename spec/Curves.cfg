SPECIFICATION Spec
INVARIANT Emit
INVARIANT NeverUnderDefault
CHECK_DEADLOCK FALSE
