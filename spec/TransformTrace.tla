-------------------------- MODULE TransformTrace --------------------------
(***************************************************************************)
(* Trace validation for C17.  Record: [defs |-> <<names>>, variants |->     *)
(* <<[name |-> <<normalised findings>>, ...], ...>>].  Accepted iff every  *)
(* definition has the same multiset of findings in all variants (repeated  *)
(* runs of one command line, permutations, file orders, unrelated extras). *)
(***************************************************************************)
EXTENDS Integers, Sequences, FiniteSets, TLC, Json, IOUtils

VARIABLE l
Rec == ndJsonDeserialize(IOEnv.TRACE)
SeqSet(q) == {q[j] : j \in 1..Len(q)}
Count(q, x) == Cardinality({j \in 1..Len(q) : q[j] = x})
SameBag(p, q) == Len(p) = Len(q) /\ \A x \in SeqSet(p) \cup SeqSet(q) : Count(p, x) = Count(q, x)
RecOK(r) == \A k \in 1..Len(r.defs) : \A i \in 2..Len(r.variants) :
               SameBag(r.variants[1][r.defs[k]], r.variants[i][r.defs[k]])
FirstBad(r) == LET bad == {<<k, i>> \in (1..Len(r.defs)) \X (2..Len(r.variants)) :
                             ~SameBag(r.variants[1][r.defs[k]], r.variants[i][r.defs[k]])} IN
               IF bad = {} THEN <<0, 0>> ELSE CHOOSE b \in bad : TRUE
Init == l = 1
Next == l <= Len(Rec) /\ l' = l + 1
Spec == Init /\ [][Next]_l
Valid == (l <= Len(Rec)) => (RecOK(Rec[l]) \/ PrintT(<<"REJECT", ToJson([idx |-> l, def |-> FirstBad(Rec[l])[1], variant |-> FirstBad(Rec[l])[2]])>>))
Accepted == TLCGet("stats").diameter = Len(Rec) + 1
=============================================================================
