------------------------------ MODULE Output ------------------------------
(***************************************************************************)
(* The output contract of the command-line tool (cli/src/main.rs,          *)
(* utils/writers.rs): writer filters, cached reports, SARIF file, summary  *)
(* line, exit status.  C03 (filter lattice), C02, C01.                     *)
(*                                                                         *)
(* Ref : a report is displayed iff its level is at least --level, its id   *)
(*       is not in --allow and it is not located solely in files that were *)
(*       only included (a report without location is displayed); exit 0    *)
(*       iff nothing was displayed; summary = number displayed; SARIF =    *)
(*       the displayed reports.                                            *)
(* Impl: offered reports go through the three filters of the stdout writer *)
(*       and are ALL cached; the SARIF writer re-filters the cache.        *)
(* The list of offered reports comes from a recorded run (IOEnv.PRODUCED,  *)
(* one JSON record per report: [id, level, loc]); TLC enumerates every     *)
(* option set over the ids that occur.                                     *)
(***************************************************************************)
EXTENDS Integers, Sequences, FiniteSets, TLC, Json, IOUtils, SequencesExt

Offered == ndJsonDeserialize(IOEnv.PRODUCED)
MaxIds == atoi(IOEnv.MAXIDS)
Rank(l) == CASE l = "info" -> 0 [] l = "warning" -> 1 [] l = "error" -> 2
Levels == {"info", "warning", "error"}
AllIds == {Offered[i].id : i \in 1..Len(Offered)}
\* at most MaxIds ids take part in the allow-subset enumeration (plus one id that never occurs)
IdSeq == SetToSortSeq(AllIds, LAMBDA a, b : TRUE)
AllowIds == {IdSeq[i] : i \in 1..(IF Len(IdSeq) < MaxIds THEN Len(IdSeq) ELSE MaxIds)} \cup {"CS9999"}

VARIABLES opts, i, shown, cached, sarif, summary, exit, pc
vars == <<opts, i, shown, cached, sarif, summary, exit, pc>>

(* ------------------------------ Ref ---------------------------------- *)
Show(r, o) == /\ Rank(r.level) >= Rank(o.level)
              /\ r.id \notin o.allow
              /\ r.loc # "included"
RefShown(o) == SelectSeq([k \in 1..Len(Offered) |-> k], LAMBDA k : Show(Offered[k], o))

(* ------------------------------ Impl --------------------------------- *)
FilterByLevel(r, o) == Rank(r.level) >= Rank(o.level)
FilterByFile(r, o) == r.loc \in {"named", "none"}     \* no primary label, or some primary label in a named file
FilterById(r, o) == r.id \notin o.allow
Pass(r, o) == FilterByLevel(r, o) /\ FilterByFile(r, o) /\ FilterById(r, o)

Init == /\ opts \in [level : Levels, allow : SUBSET AllowIds, sarif : BOOLEAN, verbose : BOOLEAN]
        /\ i = 1 /\ shown = <<>> /\ cached = <<>> /\ sarif = <<-1>> /\ summary = -1 /\ exit = -1 /\ pc = "offer"
Offer == /\ pc = "offer" /\ i <= Len(Offered)
         /\ cached' = Append(cached, i)
         /\ shown' = IF Pass(Offered[i], opts) THEN Append(shown, i) ELSE shown
         /\ i' = i + 1
         /\ UNCHANGED <<opts, sarif, summary, exit, pc>>
EndOffer == /\ pc = "offer" /\ i > Len(Offered)
            /\ pc' = IF opts.sarif THEN "sarif" ELSE "summary"
            /\ UNCHANGED <<opts, i, shown, cached, sarif, summary, exit>>
WriteSarif == /\ pc = "sarif"
              /\ sarif' = SelectSeq(cached, LAMBDA k : Pass(Offered[k], opts))
              /\ pc' = "summary"
              /\ UNCHANGED <<opts, i, shown, cached, summary, exit>>
Summarise == /\ pc = "summary"
             /\ summary' = Len(shown)
             /\ exit' = IF Len(shown) = 0 THEN 0 ELSE 1
             /\ pc' = "done"
             /\ UNCHANGED <<opts, i, shown, cached, sarif>>
Next == Offer \/ EndOffer \/ WriteSarif \/ Summarise
Spec == Init /\ [][Next]_vars

Done == pc = "done"
Contract == Done => /\ shown = RefShown(opts)
                    /\ summary = Len(shown)
                    /\ (exit = 0) <=> (Len(shown) = 0)
                    /\ opts.sarif => sarif = shown
Emit == Done => PrintT(<<"CASE", ToJson([level |-> opts.level, allow |-> SetToSeq(opts.allow), sarif |-> opts.sarif,
                                         verbose |-> opts.verbose, show |-> RefShown(opts)])>>)
=============================================================================
