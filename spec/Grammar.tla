----------------------------- MODULE Grammar -----------------------------
(***************************************************************************)
(* A token-level derivation machine for the Circom grammar accepted by     *)
(* parser/src/lang.lalrpop (definitions, statements, expressions, tuples,  *)
(* anonymous components).  C01: TLC enumerates every leftmost derivation   *)
(* within a bound on expansion steps and sentence length; each complete    *)
(* sentence is a sequence of terminal classes that the harness renders     *)
(* with literals and operators drawn from a stress set.                    *)
(* State: the sentential form.  One action: expand the leftmost            *)
(* non-terminal by one of its productions.                                 *)
(***************************************************************************)
EXTENDS Integers, Sequences, FiniteSets, TLC, Json

CONSTANTS MaxSteps, MaxLen, Start

VARIABLES form, steps
vars == <<form, steps>>

NT == {"<Def>", "<Params>", "<Stmts>", "<Stmt>", "<L>", "<AOp>", "<ROp>", "<E>", "<Args>", "<Tuple>", "<LogArgs>", "<Dims>"}

P == [nt \in NT |->
  CASE nt = "<Def>" -> {<<"template", "ID", "(", "<Params>", ")", "{", "<Stmts>", "}">>,
                        <<"function", "ID", "(", "<Params>", ")", "{", "<Stmts>", "}">>,
                        <<"template", "custom", "ID", "(", ")", "{", "<Stmts>", "}">>}
    [] nt = "<Params>" -> {<<>>, <<"ID">>, <<"ID", ",", "ID">>}
    [] nt = "<Stmts>" -> {<<>>, <<"<Stmt>", "<Stmts>">>}
    [] nt = "<Dims>" -> {<<>>, <<"[", "<E>", "]">>}
    [] nt = "<Stmt>" -> {
         <<"var", "ID", "<Dims>", ";">>, <<"var", "ID", "=", "<E>", ";">>, <<"var", "<Tuple>", "=", "<E>", ";">>,
         <<"signal", "input", "ID", "<Dims>", ";">>, <<"signal", "output", "ID", "<Dims>", ";">>, <<"signal", "ID", "<Dims>", ";">>,
         <<"signal", "output", "ID", "<AOp>", "<E>", ";">>,
         <<"component", "ID", "<Dims>", ";">>, <<"component", "ID", "=", "<E>", ";">>,
         <<"<L>", "<AOp>", "<E>", ";">>, <<"<E>", "<ROp>", "<L>", ";">>,
         <<"<E>", "<AOp>", "<E>", ";">>,          \* a left-hand side that is not a variable (accepted by the grammar as a multi-substitution)
         <<"<E>", ";">>,                           \* expression statement (anonymous component call) <<"<L>", "INCDEC", ";">>, <<"<L>", "OPASSIGN", "<E>", ";">>,
         <<"<E>", "===", "<E>", ";">>,
         <<"<Tuple>", "<AOp>", "<E>", ";">>, <<"<E>", "<ROp>", "<Tuple>", ";">>,
         <<"if", "(", "<E>", ")", "<Stmt>">>, <<"if", "(", "<E>", ")", "<Stmt>", "else", "<Stmt>">>,
         <<"while", "(", "<E>", ")", "<Stmt>">>,
         <<"for", "(", "var", "ID", "=", "<E>", ";", "<E>", ";", "<L>", "INCDEC", ")", "<Stmt>">>,
         <<"return", "<E>", ";">>, <<"assert", "(", "<E>", ")", ";">>, <<"log", "(", "<LogArgs>", ")", ";">>,
         <<"{", "<Stmts>", "}">>}
    [] nt = "<L>" -> {<<"ID">>, <<"ID", "[", "<E>", "]">>, <<"ID", ".", "ID">>, <<"ID", "[", "<E>", "]", ".", "ID", "[", "<E>", "]">>}
    [] nt = "<AOp>" -> {<<"=">>, <<"<==">>, <<"<--">>}
    [] nt = "<ROp>" -> {<<"==>">>, <<"-->">>}
    [] nt = "<E>" -> {<<"NUM">>, <<"<L>">>, <<"(", "<E>", ")">>, <<"<E>", "BOP", "<E>">>, <<"UOP", "<E>">>,
                      <<"<E>", "?", "<E>", ":", "<E>">>, <<"CALLEE", "(", "<Args>", ")">>,
                      <<"CALLEE", "(", "<Args>", ")", "(", "<Args>", ")">>, <<"parallel", "CALLEE", "(", "<Args>", ")">>,
                      <<"[", "<E>", "]">>, <<"[", "<E>", ",", "<E>", "]">>, <<"<Tuple>">>}
    [] nt = "<Args>" -> {<<>>, <<"<E>">>, <<"<E>", ",", "<E>">>, <<"ID", "<AOp>", "<E>">>}
    [] nt = "<Tuple>" -> {<<"(", "<E>", ",", "<E>", ")">>, <<"(", "_", ",", "<L>", ")">>, <<"(", "<L>", ",", "_", ",", "<L>", ")">>}
    [] nt = "<LogArgs>" -> {<<>>, <<"<E>">>, <<"STR">>, <<"STR", ",", "<E>">>}]

FirstNT(f) == LET idx == {k \in 1..Len(f) : f[k] \in NT} IN
              IF idx = {} THEN 0 ELSE CHOOSE k \in idx : \A j \in idx : k <= j
Complete(f) == FirstNT(f) = 0
\* the shortest terminal expansion of the remaining non-terminals must still fit the step budget
MinSteps(sym) == CASE sym \in {"<Def>"} -> 3 [] sym \in {"<Stmt>"} -> 2 [] sym \in {"<Tuple>"} -> 3 [] sym \in NT -> 1 [] OTHER -> 0
RECURSIVE Need(_)
Need(f) == IF f = <<>> THEN 0 ELSE MinSteps(Head(f)) + Need(Tail(f))

Init == form = <<Start>> /\ steps = 0
Expand == /\ ~Complete(form)
          /\ LET k == FirstNT(form) IN
             \E rhs \in P[form[k]] :
                /\ form' = SubSeq(form, 1, k - 1) \o rhs \o SubSeq(form, k + 1, Len(form))
                /\ steps' = steps + 1
                /\ Len(form') <= MaxLen
                /\ steps' + Need(form') <= MaxSteps
Next == Expand
Spec == Init /\ [][Next]_vars

Emit == Complete(form) => PrintT(<<"CASE", ToJson([toks |-> form])>>)
=============================================================================
