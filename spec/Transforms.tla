---------------------------- MODULE Transforms ----------------------------
(***************************************************************************)
(* Project transformations that must not change the findings of a          *)
(* definition (C17): permuting the definitions of a file, splitting them   *)
(* over two named files given in either order, adding or removing          *)
(* definitions the base definitions do not reference, letting one of two   *)
(* named files include the other, adding a further named file with many    *)
(* (90) unrelated templates that instantiate each other (bulk).            *)
(* TLC enumerates every variant; the harness renders and runs each.        *)
(***************************************************************************)
EXTENDS Integers, Sequences, FiniteSets, TLC, Json, SequencesExt

CONSTANTS Base,     \* set of base definition names
          Extras    \* set of unrelated extra definition names

VARIABLE v
Perms == {p \in [1..Cardinality(Base) -> Base] : \A a, b \in 1..Cardinality(Base) : a # b => p[a] # p[b]}
\* link: with two named files, one of them may also include the other (it is then reached twice: by name and by include)
Init == /\ v \in [perm : Perms, extras : SUBSET Extras, second : SUBSET Base, swapFiles : BOOLEAN, extrasFirst : BOOLEAN,
                  link : {"none", "oneIncludesTwo", "twoIncludesOne"}, bulk : BOOLEAN]
        /\ (v.second = {} => v.link = "none")
Next == UNCHANGED v
Spec == Init /\ [][Next]_v
\* the base variant is: identity-like order, no extras, one file
Emit == PrintT(<<"CASE", ToJson([perm |-> v.perm, extras |-> SetToSeq(v.extras), second |-> SetToSeq(v.second),
                                 swapFiles |-> v.swapFiles, extrasFirst |-> v.extrasFirst, link |-> v.link, bulk |-> v.bulk])>>)
=============================================================================
