--------------------------- MODULE SignalAssign ---------------------------
(***************************************************************************)
(* Every `<--` / `-->` signal assignment is reported exactly once (C08,    *)
(* program_analysis/src/signal_assignments.rs).                            *)
(*                                                                         *)
(* A template is a set of items out of a fixed alphabet, placed in a       *)
(* nesting context.  Assigning items (each assigns its own signals with    *)
(* `<--`; a signal can only be assigned once):                             *)
(*   G1  s1 <-- e          GR  e --> s2         GA  sa[i] <-- e in a loop  *)
(*   GC  c.x <-- e         GT  (t1, _, t2) <-- (e, e, e)                   *)
(*   GN  anonymous call with named inputs  p <-- e, q <-- e                *)
(*   GCA cs[i].x <-- e : a port of an element of a component array, in a    *)
(*       loop (CCA: the constraint on the same port in the same loop)       *)
(*   GI1 / GI2  s3 <-- e in the then- / else-arm of one `if`: two statements *)
(*       assigning the same signal (C3: a constraint on s3)                 *)
(*   GCP c2.x <-- n : a port assigned from a parameter, alone in a branch   *)
(*       (a basic block that touches no signal of the template itself)      *)
(* Constraint items (each mentions the signals listed in Mentions):        *)
(*   C1, C1b (two different statements mentioning s1), C2 (s2), CA (sa[i]  *)
(*   in the same loop), CC (c.x), CT (t1), Q (u <== expression with s1),   *)
(*   CN1 / CN2 (anonymous call whose first / second `<==` input is s1),    *)
(*   QR (expression with s2 ==> w), C0 (inputs only)                       *)
(* Ref: one finding per (assigning statement, assigned signal); when it is *)
(* the `signal assignment` kind its secondary locations are exactly the    *)
(* constraint statements present that mention that signal with the same    *)
(* access; functions and custom templates yield none.                      *)
(***************************************************************************)
EXTENDS Integers, Sequences, FiniteSets, TLC, Json, SequencesExt

CONSTANTS MaxItems

Assigning == {"G1", "GR", "GA", "GC", "GT", "GN", "GCA", "GCP", "GI1", "GI2"}
Constraining == {"C1", "C1b", "C2", "CA", "CC", "CT", "Q", "QR", "C0", "CN1", "CN2", "CCA", "C3", "CL"}
Items == Assigning \cup Constraining
\* the signals (with access text) an assigning item assigns with `<--`
Assigns == [i \in Assigning |->
  CASE i = "G1" -> {"s1"} [] i = "GR" -> {"s2"} [] i = "GA" -> {"sa[i]"} [] i = "GC" -> {"c.x"} [] i = "GT" -> {"t1", "t2"} [] i = "GN" -> {"p", "q"} [] i = "GCA" -> {"cs[i].x"} [] i = "GCP" -> {"c2.x"} [] i = "GI1" -> {"s3"} [] i = "GI2" -> {"s3"}]
Mentions == [i \in Constraining |->
  CASE i = "C1" -> {"s1"} [] i = "C1b" -> {"s1"} [] i = "C2" -> {"s2"} [] i = "CA" -> {"sa[i]"} [] i = "CC" -> {"c.x"} [] i = "CT" -> {"t1"}
    [] i = "Q" -> {"s1"} [] i = "QR" -> {"s2"} [] i = "C0" -> {}
    [] i = "CN1" -> {"s1"} [] i = "CN2" -> {"s1"} [] i = "CCA" -> {"cs[i].x"} [] i = "C3" -> {"s3"} [] i = "CL" -> {"s1"}]     \* CL: lut[s1] === 7, the signal only inside the index of a constant table      \* anonymous call with two `<==` inputs, s1 as first / second input

VARIABLE prog        \* [items, nest ("none" / "if" / "loop"), rhs ("q": quadratic right-hand sides, "nq": non-quadratic), kind]
Init == prog \in [items : {S \in SUBSET Items : Cardinality(S) <= MaxItems /\ S \cap Assigning # {}},
                  nest : {"none", "if", "loop"}, rhs : {"q", "nq"}, kind : {"template", "custom"}]
Next == UNCHANGED prog
Spec == Init /\ [][Next]_prog

\* Ref: the expected findings
Expected(p) == IF p.kind = "custom" THEN {}
               ELSE {[item |-> i, signal |-> s, secondaries |-> {c \in p.items \cap Constraining : s \in Mentions[c]}] :
                        <<i, s>> \in {<<a, b>> \in (p.items \cap Assigning) \X UNION {Assigns[x] : x \in Assigning} : b \in Assigns[a]}}
Emit == PrintT(<<"CASE", ToJson([items |-> SetToSeq(prog.items), nest |-> prog.nest, rhs |-> prog.rhs, kind |-> prog.kind,
          expect |-> SetToSeq({[item |-> e.item, signal |-> e.signal, secondaries |-> SetToSeq(e.secondaries)] : e \in Expected(prog)})])>>)
=============================================================================
