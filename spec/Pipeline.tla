----------------------------- MODULE Pipeline -----------------------------
(***************************************************************************)
(* One run of the command-line tool as a behaviour (cli/src/main.rs,       *)
(* parser/src/lib.rs parse_files, AnalysisRunner):                         *)
(*   Start -> ReadFile* -> Merge -> Desugar -> Analyse* -> Summary -> Exit *)
(* with fault injection.  C02 (no silent failure), C01 (the run ends with  *)
(* a summary and status 0/1).  The stages are refined by Includes.tla,     *)
(* Comments.tla, Runner.tla and Output.tla.                                *)
(*                                                                         *)
(* A scenario (chosen in Init): per named file a fault in {none, missing,  *)
(* unreadable, badpragma, syntax, include}; per definition a fault in      *)
(* {none, tuple, anon, paramdup, duplicate}; the number of main components.*)
(* Ref : Faulty => an error-level report of the class is displayed and the *)
(*       exit status is 1;  exit status 0 => every named file was read and *)
(*       every definition in it was analysed.                              *)
(* Impl: where each class is detected, what is dropped, and which reports  *)
(*       reach the writer (located in a named file or without location).   *)
(***************************************************************************)
EXTENDS Integers, Sequences, FiniteSets, TLC, Json, SequencesExt

CONSTANTS NFiles,        \* named files 1..NFiles, each holding one definition D_i
          Level          \* "warning" or "error" (--level)

FileFaults == {"none", "missing", "unreadable", "badpragma", "syntax", "include"}
DefFaults == {"none", "tuple", "anon", "paramdup", "duplicate", "dupfunc"}   \* dupfunc: a function with the name of a template
\* class -> [id, stem of the message, located (has a primary label)]
ClassInfo == [c \in (FileFaults \cup DefFaults \cup {"mains"}) \ {"none"} |->
   CASE c = "missing" -> [id |-> "P1000", stem |-> "Failed to open file", located |-> FALSE]
     [] c = "unreadable" -> [id |-> "P1000", stem |-> "Failed to open file", located |-> FALSE]
     [] c = "badpragma" -> [id |-> "P1003", stem |-> "which is not supported by Circomspect", located |-> FALSE]
     [] c = "syntax" -> [id |-> "P1000", stem |-> "", located |-> TRUE]
     [] c = "include" -> [id |-> "P1000", stem |-> "Failed to open file", located |-> TRUE]
     [] c = "tuple" -> [id |-> "TAC02", stem |-> "", located |-> TRUE]
     [] c = "anon" -> [id |-> "TAC01", stem |-> "", located |-> TRUE]
     [] c = "paramdup" -> [id |-> "CS0002", stem |-> "declared multiple times", located |-> TRUE]
     [] c = "duplicate" -> [id |-> "T2008", stem |-> "Duplicated function or template", located |-> TRUE]
     [] c = "dupfunc" -> [id |-> "T2008", stem |-> "Duplicated function or template", located |-> TRUE]
     [] c = "mains" -> [id |-> "P1002", stem |-> "Multiple main components", located |-> FALSE]]

VARIABLES ffault, dfault, mains, place, link, incmain,   \* the scenario
          phase, fileState, defState, shown, nshown, exit, next
vars == <<ffault, dfault, mains, place, link, incmain, phase, fileState, defState, shown, nshown, exit, next>>
\* how file 1 is handed to the tool: by its path; by its path while it sits in (or below) a directory also given with -L, or
\* is itself given with -L; through the directory that contains it.  Ref does not depend on it: a file named by the user is
\* a file to be read and analysed wherever it lies.  (A file that does not exist cannot be named through its directory.)
Places == {"plain", "underlib", "libparent", "libfile", "viadir"}
F == 1..NFiles

Init == /\ ffault \in [F -> FileFaults]
        /\ dfault \in [F -> DefFaults]
        /\ mains \in 0..(IF NFiles < 2 THEN 1 ELSE 2)
        /\ place \in Places
        /\ (place # "plain") => (\A f \in F \ {1} : ffault[f] = "none" /\ dfault[f] = "none")
        /\ (place = "viadir") => ffault[1] \notin {"missing", "unreadable"}
        \* link: the second named file also includes the first one (which is named before it): file 1 is then reached twice,
        \* by name and by include, and is a user-specified file all the same
        /\ link \in (IF NFiles >= 2 THEN BOOLEAN ELSE {FALSE})
        /\ link => (place = "plain" /\ ffault[1] \notin {"missing", "unreadable"})
        \* incmain: file 1 includes a further file (not named) that holds a main component of its own
        /\ incmain \in BOOLEAN
        /\ incmain => (place = "plain" /\ ~link)
        /\ phase = "read" /\ next = 1
        /\ fileState = [f \in F |-> "pending"] /\ defState = [f \in F |-> "pending"]
        /\ shown = {} /\ nshown = 0 /\ exit = -1

\* every error report is at error level, so it passes --level; it is located in a named file or location-less
\* the first `mains` files carry a main component; it only exists if the file's text reaches the parser intact
Intact(f) == ffault[f] \notin {"missing", "unreadable", "syntax"}
EffMains == Cardinality({f \in 1..NFiles : f <= mains /\ Intact(f)}) + (IF incmain /\ Intact(1) THEN 1 ELSE 0)
Display(c) == /\ shown' = shown \cup {c}
              /\ nshown' = nshown + 1

\* parse_files: one file after the other (the order does not matter for what is detected)
ReadFile == /\ phase = "read" /\ next <= NFiles
            /\ LET f == next
                   ff == ffault[f] IN
               /\ next' = next + 1
               /\ CASE ff \in {"missing", "unreadable"} ->         \* open_file fails: no AST, no definitions
                         /\ fileState' = [fileState EXCEPT ![f] = "failed"]
                         /\ defState' = [defState EXCEPT ![f] = "absent"]
                         /\ Display(ff)
                    [] ff = "syntax" ->                             \* parse error: the whole file is dropped
                         /\ fileState' = [fileState EXCEPT ![f] = "read"]
                         /\ defState' = [defState EXCEPT ![f] = "absent"]
                         /\ Display(ff)
                    [] ff = "badpragma" ->                          \* reported; the definitions are still analysed
                         /\ fileState' = [fileState EXCEPT ![f] = "read"]
                         /\ UNCHANGED defState
                         /\ Display(ff)
                    [] ff = "include" ->                            \* unresolved include: reported at the statement
                         /\ fileState' = [fileState EXCEPT ![f] = "read"]
                         /\ UNCHANGED defState
                         /\ Display(ff)
                    [] ff = "none" ->
                         /\ fileState' = [fileState EXCEPT ![f] = "read"]
                         /\ UNCHANGED <<defState, shown, nshown>>
            /\ UNCHANGED <<ffault, dfault, mains, place, link, incmain, phase, exit>>

\* main components, duplicate names, removal of syntactic sugar
Merge == /\ phase = "read" /\ next > NFiles
         /\ LET present == {f \in F : defState[f] = "pending"}
                dups == {f \in present : dfault[f] \in {"duplicate", "dupfunc"}}
                sugar == {f \in present : dfault[f] \in {"tuple", "anon"}} IN
            /\ defState' = [f \in F |-> IF f \in sugar THEN "dropped" ELSE defState[f]]
            /\ shown' = shown \cup (IF EffMains >= 2 THEN {"mains"} ELSE {}) \cup {dfault[f] : f \in dups \cup sugar}
            /\ nshown' = nshown + (IF EffMains >= 2 THEN 1 ELSE 0) + Cardinality(dups) + Cardinality(sugar)
         /\ phase' = "analyse" /\ next' = 1
         /\ UNCHANGED <<ffault, dfault, mains, place, link, incmain, fileState, exit>>

Analyse == /\ phase = "analyse" /\ next <= NFiles
           /\ LET f == next IN
              /\ next' = next + 1
              /\ IF defState[f] = "pending"
                 THEN IF dfault[f] = "paramdup"
                      THEN /\ defState' = [defState EXCEPT ![f] = "dropped"] /\ Display("paramdup")
                      ELSE /\ defState' = [defState EXCEPT ![f] = "analysed"] /\ UNCHANGED <<shown, nshown>>
                 ELSE UNCHANGED <<defState, shown, nshown>>
           /\ UNCHANGED <<ffault, dfault, mains, place, link, incmain, phase, fileState, exit>>

Summarise == /\ phase = "analyse" /\ next > NFiles
             /\ phase' = "exited"
             /\ exit' = IF nshown = 0 THEN 0 ELSE 1
             /\ UNCHANGED <<ffault, dfault, mains, place, link, incmain, fileState, defState, shown, nshown, next>>

Next == ReadFile \/ Merge \/ Analyse \/ Summarise
Spec == Init /\ [][Next]_vars /\ WF_vars(Next)

(* ------------------------------ Ref ---------------------------------- *)
\* a definition fault only exists if the file's text reaches the parser intact
EffectiveDefFault(f) == IF ffault[f] \in {"missing", "unreadable", "syntax"} THEN "none" ELSE dfault[f]
FaultClasses == ({ffault[f] : f \in F} \cup {EffectiveDefFault(f) : f \in F} \cup (IF EffMains >= 2 THEN {"mains"} ELSE {})) \ {"none"}
Exited == phase = "exited"
NoSilentFailure == Exited => ((\A c \in FaultClasses : c \in shown) /\ ((FaultClasses # {}) => exit = 1))
CleanMeansComplete == (Exited /\ exit = 0) => ((\A f \in F : fileState[f] = "read") /\ (\A g \in F : defState[g] = "analysed"))
ExitIsZeroOrOne == Exited => exit \in {0, 1}
Terminates == <>Exited

Emit == Exited => PrintT(<<"CASE", ToJson([ffault |-> ffault, dfault |-> [f \in F |-> EffectiveDefFault(f)], mains |-> mains, place |-> place, link |-> link, incmain |-> incmain,
                                         classes |-> SetToSeq(FaultClasses)])>>)
EmitClassInfo == PrintT(<<"CLASSINFO", ToJson(ClassInfo)>>)
=============================================================================
