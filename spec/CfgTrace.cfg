SPECIFICATION Spec
CONSTANTS
  MaxIter = 2
  MaxRun = 40
INVARIANT Static
INVARIANT Dynamic
INVARIANT Consumed
CHECK_DEADLOCK FALSE
