------------------------------ MODULE Scopes ------------------------------
(***************************************************************************)
(* Lexical scoping and shadowing (control_flow_graph/unique_vars.rs,       *)
(* ir lifting of `name.suffix`, ssa_impl.rs version keys).  C10.           *)
(*                                                                         *)
(* A program is a token sequence: [k |-> "P", n] (a parameter, only at the *)
(* start), [k |-> "D", n] (declaration with initialiser), [k |-> "U", n]   *)
(* (a read followed by a write of n), [k |-> "{"] / [k |-> "}"] (a block;  *)
(* the harness renders blocks as plain blocks, branches or loop bodies).   *)
(* Ref  : a use binds to the innermost enclosing declaration of the name   *)
(*        that precedes it, parameters outermost; a declaration shadows    *)
(*        when the name is visible at that point.                          *)
(* Impl : the DeclarationEnvironment machine (first declaration keeps the  *)
(*        bare name, redeclarations get suffix 0, 1, .. from a per-name    *)
(*        global counter, scoped current suffix) and the key under which   *)
(*        the SSA environment tracks versions.  OrigKey = TRUE models the  *)
(*        pinned commit's key `name_suffix` (debug string).                *)
(***************************************************************************)
EXTENDS Integers, Sequences, FiniteSets, TLC, Json

CONSTANTS Names, ParamNames, MaxSteps, MaxLen, OrigKey

VARIABLES form, steps
vars == <<form, steps>>

Tok(k, n) == [k |-> k, n |-> n]
NTL == Tok("<List>", "")
NTS == Tok("<Stmt>", "")
IsNT(t) == t.k \in {"<List>", "<Stmt>"}
Prods(t) == IF t.k = "<List>" THEN {<<Tok("}", "")>>, <<NTS, NTL>>}
            ELSE {<<Tok("D", n)>> : n \in Names} \cup {<<Tok("U", n)>> : n \in Names} \cup {<<Tok("{", ""), NTL>>}
                 \cup {<<Tok("F", n), NTL>> : n \in Names}       \* for (var n = ..; n < ..; n += ..) { .. }
FirstNT(f) == LET idx == {k \in 1..Len(f) : IsNT(f[k])} IN IF idx = {} THEN 0 ELSE CHOOSE k \in idx : \A j \in idx : k <= j
Complete(f) == FirstNT(f) = 0
RECURSIVE Need(_)
Need(f) == IF f = <<>> THEN 0 ELSE (IF IsNT(Head(f)) THEN 1 ELSE 0) + Need(Tail(f))
ParamSeqs == {<<>>} \cup {<<Tok("P", n)>> : n \in ParamNames}
Init == \E ps \in ParamSeqs : form = ps \o <<NTL>> /\ steps = 0
Next == /\ ~Complete(form)
        /\ LET k == FirstNT(form) IN
           \E rhs \in Prods(form[k]) :
              /\ form' = SubSeq(form, 1, k - 1) \o rhs \o SubSeq(form, k + 1, Len(form))
              /\ steps' = steps + 1
              /\ Len(form') <= MaxLen
              /\ steps' + Need(form') <= MaxSteps
Spec == Init /\ [][Next]_vars

(* ------------------------------ Ref ---------------------------------- *)
\* scope stack: sequence of frames; a frame is a function Names -> declaring token index (0: parameter, -1: not declared here)
NoFrame == [n \in Names |-> -1]
Frame(kind, d) == [kind |-> kind, d |-> d]
Lookup(stack, n) == LET hits == {j \in 1..Len(stack) : stack[j].d[n] # -1} IN
                    IF hits = {} THEN -1 ELSE stack[CHOOSE j \in hits : \A h \in hits : h <= j].d[n]
Pop(stack) == LET s1 == SubSeq(stack, 1, Len(stack) - 1) IN
              IF Len(s1) > 0 /\ s1[Len(s1)].kind = "forH" /\ stack[Len(stack)].kind = "forB" THEN SubSeq(s1, 1, Len(s1) - 1) ELSE s1
\* result: bind = sequence (per token) of the declaring token index the occurrence denotes (-2: not an occurrence,
\* -1: unbound); shadows = set of <<declaration index, shadowed declaration index>>.  A `for` header declares its
\* variable in a scope of its own that encloses the body block; the condition and the step are uses in that scope.
RECURSIVE RefGo(_, _, _, _, _)
RefGo(t, i, stack, bind, shadows) ==
  IF i > Len(t) THEN [bind |-> bind, shadows |-> shadows]
  ELSE LET tk == t[i] IN
    CASE tk.k = "P" -> RefGo(t, i + 1, [stack EXCEPT ![1] = Frame(@.kind, [@.d EXCEPT ![tk.n] = 0])], Append(bind, -2), shadows)
      [] tk.k = "{" -> RefGo(t, i + 1, Append(stack, Frame("blk", NoFrame)), Append(bind, -2), shadows)
      [] tk.k = "}" -> RefGo(t, i + 1, Pop(stack), Append(bind, -2), shadows)
      [] tk.k = "D" -> LET seen == Lookup(stack, tk.n) IN
                       RefGo(t, i + 1, [stack EXCEPT ![Len(stack)] = Frame(@.kind, [@.d EXCEPT ![tk.n] = i])], Append(bind, i),
                             IF seen # -1 THEN shadows \cup {<<i, seen>>} ELSE shadows)
      [] tk.k = "F" -> LET seen == Lookup(stack, tk.n) IN
                       RefGo(t, i + 1, stack \o <<Frame("forH", [NoFrame EXCEPT ![tk.n] = i]), Frame("forB", NoFrame)>>, Append(bind, i),
                             IF seen # -1 THEN shadows \cup {<<i, seen>>} ELSE shadows)
      [] tk.k = "U" -> RefGo(t, i + 1, stack, Append(bind, Lookup(stack, tk.n)), shadows)
\* the function body is itself a block: the first frame holds the parameters, the second the body's declarations
Ref(t) == RefGo(t, 1, <<Frame("blk", NoFrame), Frame("blk", NoFrame)>>, <<>>, {})
AllBound(t) == \A i \in 1..Len(t) : t[i].k = "U" => Ref(t).bind[i] # -1

(* ------------------------------ Impl --------------------------------- *)
\* DeclarationEnvironment: global[n] = -2 (never declared), -1 (declared once: bare name), k >= 0 (last suffix handed out);
\* scoped: stack of frames Names -> current suffix (-2: no entry in this frame, -1 does not occur: the bare name has no entry)
NoSfx == [n \in Names |-> -2]
SFrame(kind, d) == [kind |-> kind, d |-> d]
CurSfx(sc, n) == LET hits == {j \in 1..Len(sc) : sc[j].d[n] # -2} IN
                 IF hits = {} THEN -1 ELSE sc[CHOOSE j \in hits : \A h \in hits : h <= j].d[n]
\* for_into_while builds Block[init, While(cond, Block[body, step])]: a wrapper block around the header declaration and
\* another around body and step; the body is a block of its own.  The closing brace leaves all of them.
PopS(sc) == LET s1 == SubSeq(sc, 1, Len(sc) - 1) IN
            IF sc[Len(sc)].kind = "forB" THEN SubSeq(s1, 1, Len(s1) - 2) ELSE s1
RECURSIVE ImpGo(_, _, _, _, _)
ImpGo(t, i, sc, glob, out) ==
  IF i > Len(t) THEN out
  ELSE LET tk == t[i] IN
    CASE tk.k = "P" -> ImpGo(t, i + 1, sc, [glob EXCEPT ![tk.n] = -1], Append(out, <<"", -2>>))
      [] tk.k = "{" -> ImpGo(t, i + 1, Append(sc, SFrame("blk", NoSfx)), glob, Append(out, <<"", -2>>))
      [] tk.k = "}" -> ImpGo(t, i + 1, PopS(sc), glob, Append(out, <<"", -2>>))
      [] tk.k \in {"D", "F"} ->
           LET sc1 == IF tk.k = "F" THEN Append(sc, SFrame("forW", NoSfx)) ELSE sc
               inner == IF tk.k = "F" THEN <<SFrame("forW2", NoSfx), SFrame("forB", NoSfx)>> ELSE <<>> IN
           IF glob[tk.n] = -2
           THEN ImpGo(t, i + 1, sc1 \o inner, [glob EXCEPT ![tk.n] = -1], Append(out, <<tk.n, -1>>))
           ELSE LET sfx == glob[tk.n] + 1 IN
                ImpGo(t, i + 1, [sc1 EXCEPT ![Len(sc1)] = SFrame(@.kind, [@.d EXCEPT ![tk.n] = sfx])] \o inner, [glob EXCEPT ![tk.n] = sfx],
                      Append(out, <<tk.n, sfx>>))
      [] tk.k = "U" -> ImpGo(t, i + 1, sc, glob, Append(out, <<tk.n, CurSfx(sc, tk.n)>>))
Imp(t) == ImpGo(t, 1, <<SFrame("blk", NoSfx), SFrame("blk", NoSfx)>>, [n \in Names |-> -2], <<>>)
\* the key under which ssa_impl tracks the versions of (name, suffix)
Digit(k) == CASE k = 0 -> "0" [] k = 1 -> "1" [] k = 2 -> "2" [] k = 3 -> "3" [] k = 4 -> "4" [] OTHER -> "9"
SsaKey(ns) == IF ns[2] = -1 THEN ns[1] ELSE ns[1] \o (IF OrigKey THEN "_" ELSE ".") \o Digit(ns[2])

Occ(t) == {i \in 1..Len(t) : t[i].k \in {"D", "U", "F"}}
\* L1: the renaming is faithful (same IR name <=> same Ref declaration) and the SSA key does not merge variables
L1Faithful == (Complete(form) /\ AllBound(form)) =>
   LET r == Ref(form)
       m == Imp(form) IN
   \A a, b \in Occ(form) : (r.bind[a] = r.bind[b]) <=> (SsaKey(m[a]) = SsaKey(m[b]))

Emit == (Complete(form) /\ AllBound(form)) =>
   PrintT(<<"CASE", ToJson([toks |-> form, bind |-> Ref(form).bind,
                            shadows |-> LET S == Ref(form).shadows IN [p \in 1..Cardinality(S) |-> CHOOSE x \in S : Cardinality({y \in S : y[1] < x[1]}) = p - 1]])>>)
=============================================================================
