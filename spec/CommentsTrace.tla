-------------------------- MODULE CommentsTrace --------------------------
(***************************************************************************)
(* Trace validation for C05: records written by the harness after running  *)
(* the real `preprocess` on random strings (beyond the exhaustive scope,   *)
(* larger alphabet) are checked against Ref of Comments.tla.               *)
(* Record: [s |-> symbols, out |-> one symbol per output byte, err |-> b]  *)
(***************************************************************************)
EXTENDS Naturals, Sequences, TLC, Json, IOUtils

VARIABLE l

C == INSTANCE Comments WITH N <- 0, Alphabet <- {}, s <- <<>>

Rec == ndJsonDeserialize(IOEnv.TRACE)

\* expand Ref's output to one symbol per byte ("e" -> e1 e2, "w" -> w1..w4)
RECURSIVE Bytes(_)
Bytes(o) == IF o = <<>> THEN <<>>
            ELSE LET c == Head(o) IN
                 (IF c = "e" THEN <<"e1", "e2">>
                  ELSE IF c = "w" THEN <<"w1", "w2", "w3", "w4">>
                  ELSE <<c>>) \o Bytes(Tail(o))

RecOK(r) == LET ref == C!Ref(r.s) IN
            /\ ref.err = r.err
            /\ ~ref.err => LET b == Bytes(ref.out) IN
                           /\ Len(b) = Len(r.out)
                           /\ \A k \in 1..Len(b) : \/ b[k] = r.out[k]
                                                   \/ (b[k] = "_" /\ r.out[k] \in {"_", "n"})

Init == l = 1
Next == l <= Len(Rec) /\ l' = l + 1
Spec == Init /\ [][Next]_l

\* every rejected record is printed (REJECT lines are collected by the driver); the run continues
Valid == (l <= Len(Rec)) => (RecOK(Rec[l]) \/ PrintT(<<"REJECT", ToJson([idx |-> l])>>))
AllValid == (l <= Len(Rec)) => RecOK(Rec[l])
Accepted == TLCGet("stats").diameter = Len(Rec) + 1
=============================================================================
