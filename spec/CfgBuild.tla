----------------------------- MODULE CfgBuild -----------------------------
(***************************************************************************)
(* Structured statement trees for the CFG / SSA properties (C12, C13, C14):*)
(* a derivation machine that enumerates every function body with at most  *)
(* MaxSteps expansions: simple statements, returns, if / if-else, while,   *)
(* for, nested blocks, with braced or bare (unbraced) arms.                *)
(* Sentences are in prefix notation:                                       *)
(*   s | n | r | if ARM | ife ARM ARM | wh ARM | for ARM | { LIST }        *)
(*   (s assigns a local, n is a statement that assigns none: an assert; d    *)
(*   declares a signal / a local without initialiser; m is one declaration   *)
(*   statement with two symbols `var a = .., b[..];`)                        *)
(*   ARM  = { LIST } | bare STMT          LIST = sequence closed by "}"    *)
(* The harness numbers the nodes, chooses which variables the simple       *)
(* statements and conditions read and write (all patterns over two         *)
(* variables, rotated), renders Circom text and has the real parser build  *)
(* the CFG; CfgTrace.tla then judges the exported graphs.                  *)
(***************************************************************************)
EXTENDS Integers, Sequences, FiniteSets, TLC, Json

CONSTANTS MaxSteps, MaxLen

VARIABLES form, steps
vars == <<form, steps>>
NT == {"<List>", "<Stmt>", "<Arm>", "<LoopArm>", "<Stmt2>"}
P == [nt \in NT |->
  CASE nt = "<List>" -> {<<"}">>, <<"<Stmt>", "<List>">>}
    [] nt = "<Stmt>" -> {<<"s">>, <<"n">>, <<"d">>, <<"m">>, <<"r">>, <<"if", "<Arm>">>, <<"ife", "<Arm>", "<Arm>">>, <<"wh", "<LoopArm>">>, <<"for", "<LoopArm>">>,
                         <<"{", "<List>">>}
    [] nt = "<Arm>" -> {<<"{", "<List>">>, <<"bare", "<Stmt>">>}
    \* the grammar (lang.lalrpop ParseStatement2) does not accept a bare `if` as a loop body
    [] nt = "<LoopArm>" -> {<<"{", "<List>">>, <<"bare", "<Stmt2>">>}
    [] nt = "<Stmt2>" -> {<<"s">>, <<"n">>, <<"r">>, <<"wh", "<LoopArm>">>, <<"for", "<LoopArm>">>, <<"{", "<List>">>}]
FirstNT(f) == LET idx == {k \in 1..Len(f) : f[k] \in NT} IN
              IF idx = {} THEN 0 ELSE CHOOSE k \in idx : \A j \in idx : k <= j
Complete(f) == FirstNT(f) = 0
RECURSIVE Need(_)
Need(f) == IF f = <<>> THEN 0 ELSE (IF Head(f) \in NT THEN 1 ELSE 0) + Need(Tail(f))
Init == form = <<"<List>">> /\ steps = 0
Next == /\ ~Complete(form)
        /\ LET k == FirstNT(form) IN
           \E rhs \in P[form[k]] :
              /\ form' = SubSeq(form, 1, k - 1) \o rhs \o SubSeq(form, k + 1, Len(form))
              /\ steps' = steps + 1
              /\ Len(form') <= MaxLen
              /\ steps' + Need(form') <= MaxSteps
Spec == Init /\ [][Next]_vars
Emit == Complete(form) => PrintT(<<"CASE", ToJson([toks |-> form])>>)
=============================================================================
