---------------------------- MODULE Semantics ----------------------------
(***************************************************************************)
(* Reference executor for a Circom fragment over F_P (C06, C07, C20; the   *)
(* effect-log variant for C09 is SemanticsEffects.tla).                    *)
(*                                                                         *)
(* A record of the trace file is one definition in abstract form together  *)
(* with the CLAIMS the real analysis attached to it (constant values and   *)
(* degree bounds per expression node, findings turned into claims).  TLC   *)
(* explores every execution of the definition: every valuation of the      *)
(* parameters (chosen when the record is loaded) and every path; signals   *)
(* and component ports are independent indeterminates, so a value is a     *)
(* TABLE over all valuations of the K indeterminates (one execution covers *)
(* all signal values; legal because branch conditions of the fragment are  *)
(* signal-free -- an execution whose condition is not constant over the    *)
(* table is abandoned and counted as out of fragment).                     *)
(*                                                                         *)
(* Value  = [t |-> table (sequence of P^K field elements, Err = undefined),*)
(*           poly |-> built as a polynomial expression]                    *)
(* Claims are checked in the state BEFORE the statement that contains the  *)
(* claimed node executes (expressions are pure).                           *)
(*   val claim : the node's table is the claimed constant wherever defined *)
(*   deg claim : hi <= 2  =>  poly /\ total degree of the table <= hi      *)
(*               (poly judged where the value is defined at all)           *)
(* Operator semantics: Field.tla.  Locals declared without initialiser are *)
(* 0, as in Circom.  Local arrays hold one value per element; an element  *)
(* read or write needs an index that is constant over the signal          *)
(* valuations.                                                             *)
(***************************************************************************)
EXTENDS Field, FiniteSets, IOUtils

CONSTANTS P, K

Rec == ndJsonDeserialize(IOEnv.TRACE)
NPts == IF K = 0 THEN 1 ELSE IF K = 1 THEN P ELSE IF K = 2 THEN P * P ELSE P * P * P
Pts == 1..NPts
RECURSIVE PowI(_, _)
PowI(b, e) == IF e = 0 THEN 1 ELSE b * PowI(b, e - 1)
Coord(i, c) == ((i - 1) \div PowI(P, c - 1)) % P              \* value of indeterminate c at point i
ShiftPt(i, c) == LET d == PowI(P, c - 1) IN IF Coord(i, c) = P - 1 THEN i - (P - 1) * d ELSE i + d

VARIABLES l,        \* record index
          stack,    \* continuation: sequence of statement indices still to execute (top = last)
          env,      \* variable name -> Value
          started,  \* parameters chosen
          bad,      \* "" or the violated clause
          nid       \* node the violated clause is about
vars == <<l, stack, env, started, bad, nid>>

Prog == Rec[l]
ConstT(v) == [i \in Pts |-> v]
MkVal(t, poly) == [t |-> t, poly |-> poly]
IsConstT(t) == \A i \in Pts : t[i] = t[1]
Defined(t) == \A i \in Pts : t[i] # Err

(* ----------------------------- evaluation ----------------------------- *)
ArithOps == {"add", "sub", "mul"}
RECURSIVE Eval(_, _)
Eval(e, en) ==
  LET nd == Prog.exprs[e] IN
  CASE nd.k = "num" -> MkVal(ConstT(nd.v % P), TRUE)
    [] nd.k = "var" -> IF nd.x \in DOMAIN en THEN en[nd.x] ELSE MkVal(ConstT(Err), FALSE)
    [] nd.k = "sig" -> MkVal([i \in Pts |-> Coord(i, nd.v)], TRUE)           \* an indeterminate
    [] nd.k = "opaque" -> MkVal(ConstT(Err), FALSE)                          \* calls etc.: not interpreted
    [] nd.k = "idx" ->          \* element of a local array: the index must be the same constant for every signal valuation
         LET ix == Eval(nd.l, en) IN
         IF nd.x \notin DOMAIN en \/ ~IsConstT(ix.t) \/ ix.t[1] = Err THEN MkVal(ConstT(Err), FALSE)
         ELSE IF ix.t[1] + 1 \notin DOMAIN en[nd.x].elems THEN MkVal(ConstT(Err), FALSE)
         ELSE en[nd.x].elems[ix.t[1] + 1]
    [] nd.k = "bin" ->
         LET a == Eval(nd.l, en)
             b == Eval(nd.r, en)
             t == [i \in Pts |-> IF a.t[i] = Err \/ b.t[i] = Err THEN Err ELSE Bin(nd.op, a.t[i], b.t[i], P)]
             poly == CASE nd.op \in ArithOps -> a.poly /\ b.poly
                       [] nd.op = "div" -> a.poly /\ b.poly /\ IsConstT(b.t)
                       [] nd.op = "pow" -> a.poly /\ b.poly /\ IsConstT(b.t)
                       [] OTHER -> IsConstT(a.t) /\ IsConstT(b.t) IN
         MkVal(t, poly)
    [] nd.k = "un" ->
         LET a == Eval(nd.r, en)
             t == [i \in Pts |-> IF a.t[i] = Err THEN Err
                                  ELSE IF nd.op = "sq" THEN Bin("mul", a.t[i], a.t[i], P)      \* a call of sq(x) = x * x
                                  ELSE Un(nd.op, a.t[i], P)] IN
         MkVal(t, IF nd.op \in {"prefix_sub", "sq"} THEN a.poly ELSE IsConstT(a.t))
    [] nd.k = "tern" ->
         LET c == Eval(nd.c, en)
             a == Eval(nd.l, en)
             b == Eval(nd.r, en)
             t == [i \in Pts |-> IF c.t[i] = Err THEN Err ELSE IF c.t[i] # 0 THEN a.t[i] ELSE b.t[i]] IN
         MkVal(t, IsConstT(c.t) /\ (IF c.t[1] # 0 THEN a.poly ELSE b.poly))

(* ------------------------ degree of a table --------------------------- *)
Diff(t, c) == [i \in Pts |-> (t[ShiftPt(i, c)] - t[i] + P) % P]
RECURSIVE DiffAll(_, _)
DiffAll(t, dirs) == IF dirs = <<>> THEN t ELSE DiffAll(Diff(t, Head(dirs)), Tail(dirs))
RECURSIVE Dirs(_, _)
Dirs(n, lo) == IF n = 0 THEN {<<>>} ELSE UNION {{<<c>> \o d : d \in Dirs(n - 1, c)} : c \in lo..K}
DegLe(t, d) == \A ds \in Dirs(d + 1, 1) : \A i \in Pts : DiffAll(t, ds)[i] = 0

(* ------------------------------ claims -------------------------------- *)
\* "" if the claim holds in env en, else the violated clause
ClaimVerdict(cl, en) ==
  LET v == Eval(cl.e, en) IN
  IF cl.kind = "val" THEN
       (IF \E i \in Pts : v.t[i] # Err /\ (IF cl.isbool THEN (v.t[i] # 0) # (cl.v # 0) ELSE v.t[i] # cl.v % P)
        THEN "claimed constant does not hold in this execution" ELSE "")
  ELSE IF cl.kind = "deg" /\ cl.hi <= 2 THEN
       \* `not a polynomial expression` is judged wherever the expression has a value at all (in1 / in2 is undefined
       \* for in2 = 0 and still no polynomial); the degree of the table only where it is defined everywhere
       (IF (\E i \in Pts : v.t[i] # Err) /\ ~v.poly THEN "degree claimed for an expression that is not a polynomial expression of the signals"
        ELSE IF Defined(v.t) /\ K > 0 /\ ~DegLe(v.t, cl.hi) THEN "claimed degree bound exceeded"
        ELSE "")
  ELSE ""
RECURSIVE FirstBad(_, _, _)
FirstBad(cls, k, en) == IF k > Len(cls) THEN <<"", 0>>
                        ELSE LET w == ClaimVerdict(cls[k], en) IN
                             IF w # "" THEN <<w, cls[k].nid>> ELSE FirstBad(cls, k + 1, en)

(* ----------------------------- execution ------------------------------ *)
Push(st, kids) == st \o [j \in 1..Len(kids) |-> kids[Len(kids) + 1 - j]]
Truth(v) == v.t[1] # 0
Init == /\ l = 1 /\ stack = <<>> /\ env = <<>> /\ started = FALSE /\ bad = "" /\ nid = 0
\* choose the parameter values (every valuation is a successor of the record's initial state)
Start == /\ l <= Len(Rec) /\ ~started /\ Prog.kind # "skip"
         /\ \E pv \in [1..Len(Prog.params) -> 0..(P - 1)] :
               env' = [x \in {Prog.params[j] : j \in 1..Len(Prog.params)} |->
                          MkVal(ConstT(pv[CHOOSE j \in 1..Len(Prog.params) : Prog.params[j] = x]), TRUE)]
         /\ stack' = <<Prog.root>> /\ started' = TRUE
         /\ UNCHANGED <<l, bad, nid>>
Step == /\ l <= Len(Rec) /\ started /\ bad = "" /\ stack # <<>>
        /\ LET n == stack[Len(stack)]
               rest == SubSeq(stack, 1, Len(stack) - 1)
               st == Prog.stmts[n]
               verdict == FirstBad(st.claims, 1, env) IN
           IF verdict[1] # "" THEN /\ bad' = verdict[1] /\ nid' = verdict[2] /\ UNCHANGED <<l, stack, env, started>>
           ELSE /\ UNCHANGED <<l, started, bad, nid>>
                /\ CASE st.k = "blk" -> stack' = Push(rest, st.kids) /\ UNCHANGED env
                     [] st.k = "decl0" -> stack' = rest /\ env' = (st.x :> MkVal(ConstT(0), TRUE)) @@ env
                     [] st.k = "set" -> stack' = rest /\ env' = (st.x :> Eval(st.e, env)) @@ env
                     [] st.k = "decla" ->       \* var a[n]: all elements zero
                          stack' = rest /\ env' = (st.x :> [elems |-> [j \in 1..st.t |-> MkVal(ConstT(0), TRUE)]]) @@ env
                     [] st.k = "seti" ->        \* a[i] = e  (st.e2 = index expression)
                          LET ix == Eval(st.e2, env) IN
                          IF st.x \notin DOMAIN env \/ ~IsConstT(ix.t) \/ ix.t[1] = Err \/ ix.t[1] + 1 \notin DOMAIN env[st.x].elems
                          THEN stack' = <<>> /\ UNCHANGED env           \* out-of-range or signal-dependent index: run abandoned
                          ELSE /\ stack' = rest
                               /\ env' = (st.x :> [elems |-> [env[st.x].elems EXCEPT ![ix.t[1] + 1] = Eval(st.e, env)]]) @@ env
                     [] st.k = "if" ->
                          LET c == Eval(st.e, env) IN
                          IF ~Defined(c.t) \/ ~IsConstT(c.t) THEN stack' = <<>> /\ UNCHANGED env     \* undefined or out of fragment
                          ELSE /\ stack' = IF Truth(c) THEN Push(rest, <<st.t>>) ELSE (IF st.f # 0 THEN Push(rest, <<st.f>>) ELSE rest)
                               /\ UNCHANGED env
                     [] st.k = "wh" ->
                          LET c == Eval(st.e, env) IN
                          IF ~Defined(c.t) \/ ~IsConstT(c.t) THEN stack' = <<>> /\ UNCHANGED env
                          ELSE /\ stack' = IF Truth(c) THEN Push(rest \o <<n>>, <<st.t>>) ELSE rest
                               /\ UNCHANGED env
                     [] st.k = "ret" -> stack' = <<>> /\ UNCHANGED env
                     [] st.k = "stop" -> stack' = <<>> /\ UNCHANGED env           \* a statement outside the fragment: end the run
                     [] OTHER -> stack' = rest /\ UNCHANGED env                   \* nop: signal assignments, constraints, assert, log
NextRecord == /\ l <= Len(Rec) /\ ~started
              /\ l' = l + 1 /\ UNCHANGED <<stack, env, started, bad, nid>>
Next == Start \/ Step \/ NextRecord
Spec == Init /\ [][Next]_vars

ClaimsHold == (bad # "") => PrintT(<<"REJECT", ToJson([idx |-> l, why |-> bad, nid |-> nid])>>)
Consumed == (l = Len(Rec) + 1) => PrintT(<<"CONSUMED", ToJson([n |-> Len(Rec)])>>)
=============================================================================
