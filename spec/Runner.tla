------------------------------ MODULE Runner ------------------------------
(***************************************************************************)
(* AnalysisRunner (program_analysis/src/analysis_runner.rs): CFG cache,    *)
(* report cache, analysis of the definitions of the named files in ANY     *)
(* order (the order is a HashMap iteration order in the code), look-ups of *)
(* other templates by the inter-procedural pass.  C03, C17, C02.           *)
(*                                                                         *)
(* Ref  : report conservation -- every report produced for a definition of *)
(*        a named file (CFG stage, lifting error, passes) is offered to    *)
(*        the writer exactly once, whatever the order and whoever looked   *)
(*        the definition up first; definitions of included-only files are  *)
(*        never offered.                                                   *)
(* Impl : one action per step of analyze_template / cache_template.        *)
(*        Orig = TRUE  : the algorithm of the pinned commit (reports taken *)
(*                       BEFORE the CFG is generated; a lifting error is   *)
(*                       pushed to a local collection and dropped).        *)
(*        Orig = FALSE : the repaired algorithm (`fix:` commit).           *)
(* A configuration (which definitions are named, lift, carry a CFG-stage   *)
(* report, look up which templates) is chosen in Init, so TLC explores all *)
(* configurations x all orders.                                            *)
(***************************************************************************)
EXTENDS Integers, Sequences, FiniteSets, TLC, Json

CONSTANTS Defs, Orig, MaxLooks

VARIABLES conf,       \* [d \in Defs |-> [named, liftOk, cfgRep (0..1), looks \subseteq Defs]]
          todo,       \* named definitions not yet analysed
          cur, pc,    \* definition under analysis, step
          cfgCache,   \* definitions with a cached CFG
          repCache,   \* [Defs -> -1 .. n] : number of cached CFG-stage reports, -1 = no entry
          lifted,     \* did take_template succeed for cur
          taken,      \* number of CFG-stage reports taken for cur
          pending,    \* look-ups the passes of cur still have to do
          displayed,  \* [Defs -> [cfg |-> n, pass |-> n]] reports offered to the writer
          order       \* history: the order of analysis (hidden from the state space by VIEW)
vars == <<conf, todo, cur, pc, cfgCache, repCache, lifted, taken, pending, displayed, order>>
view == <<conf, todo, cur, pc, cfgCache, repCache, lifted, taken, pending, displayed>>

NoDef == "-"
CfgStageReports(d) == IF conf[d].liftOk THEN conf[d].cfgRep ELSE conf[d].cfgRep + 1   \* + the lifting error

Confs == [named : BOOLEAN, liftOk : BOOLEAN, cfgRep : 0..1, looks : {S \in SUBSET Defs : Cardinality(S) <= MaxLooks}]

Init == /\ conf \in [Defs -> Confs]
        /\ todo = {d \in Defs : conf[d].named}
        /\ cur = NoDef /\ pc = "idle"
        /\ cfgCache = {} /\ repCache = [d \in Defs |-> -1]
        /\ lifted = FALSE /\ taken = 0 /\ pending = {}
        /\ displayed = [d \in Defs |-> [cfg |-> 0, pass |-> 0]]
        /\ order = <<>>

(* cache_template(e): returns the new <<cfgCache, repCache>> *)
Cache(e, cc, rc) ==
  IF e \in cc THEN <<cc, rc>>
  ELSE IF rc[e] # -1 THEN <<cc, rc>>                       \* "already failed to generate the CFG"
  ELSE IF conf[e].liftOk
       THEN <<cc \cup {e}, [rc EXCEPT ![e] = conf[e].cfgRep]>>   \* append_template_reports creates the entry
       ELSE IF Orig THEN <<cc, rc>>                          \* error pushed to a local, dropped by `?`
                    ELSE <<cc, [rc EXCEPT ![e] = conf[e].cfgRep + 1]>>

Pick == /\ pc = "idle" /\ todo # {}
        /\ \E d \in todo : /\ cur' = d /\ todo' = todo \ {d} /\ order' = Append(order, d)
        /\ pc' = IF Orig THEN "take_reports" ELSE "take_cfg"
        /\ UNCHANGED <<conf, cfgCache, repCache, lifted, taken, pending, displayed>>

TakeCfg == /\ pc = "take_cfg"
           /\ LET r == Cache(cur, cfgCache, repCache) IN
              /\ lifted' = (cur \in r[1])
              /\ cfgCache' = r[1] \ {cur}
              /\ repCache' = r[2]
           /\ pc' = IF Orig THEN (IF lifted' THEN "passes" ELSE "write") ELSE "take_reports"
           /\ pending' = IF lifted' THEN conf[cur].looks ELSE {}
           /\ UNCHANGED <<conf, todo, cur, taken, displayed, order>>

TakeReports == /\ pc = "take_reports"
               /\ taken' = IF repCache[cur] = -1 THEN 0 ELSE repCache[cur]
               /\ repCache' = [repCache EXCEPT ![cur] = -1]
               /\ pc' = IF Orig THEN "take_cfg" ELSE (IF lifted THEN "passes" ELSE "write")
               /\ UNCHANGED <<conf, todo, cur, cfgCache, lifted, pending, displayed, order>>

Lookup == /\ pc = "passes" /\ pending # {}
          /\ \E e \in pending :
               LET r == Cache(e, cfgCache, repCache) IN
               /\ cfgCache' = r[1] /\ repCache' = r[2] /\ pending' = pending \ {e}
          /\ UNCHANGED <<conf, todo, cur, pc, lifted, taken, displayed, order>>

PassesDone == /\ pc = "passes" /\ pending = {}
              /\ pc' = "replace"
              /\ UNCHANGED <<conf, todo, cur, cfgCache, repCache, lifted, taken, pending, displayed, order>>

Replace == /\ pc = "replace"
           /\ cfgCache' = cfgCache \cup {cur}
           /\ repCache' = IF ~Orig /\ cur \in cfgCache       \* regenerated during the analysis (recursion):
                          THEN [repCache EXCEPT ![cur] = -1]  \* its reports were already taken -- discard
                          ELSE repCache
           /\ pc' = "write"
           /\ UNCHANGED <<conf, todo, cur, lifted, taken, pending, displayed, order>>

Write == /\ pc = "write"
         /\ displayed' = [displayed EXCEPT ![cur] = [cfg |-> @.cfg + taken, pass |-> @.pass + (IF lifted THEN 1 ELSE 0)]]
         /\ pc' = "idle" /\ cur' = NoDef /\ taken' = 0 /\ lifted' = FALSE
         /\ UNCHANGED <<conf, todo, cfgCache, repCache, pending, order>>

Next == Pick \/ TakeCfg \/ TakeReports \/ Lookup \/ PassesDone \/ Replace \/ Write
Spec == Init /\ [][Next]_vars

(* ------------------------------ Ref ---------------------------------- *)
Expected(d) == IF conf[d].named
               THEN [cfg |-> CfgStageReports(d), pass |-> IF conf[d].liftOk THEN 1 ELSE 0]
               ELSE [cfg |-> 0, pass |-> 0]
Done == pc = "idle" /\ todo = {}
NeverTwice == \A d \in Defs : displayed[d].cfg <= Expected(d).cfg /\ displayed[d].pass <= Expected(d).pass
Conservation == Done => \A d \in Defs : displayed[d] = Expected(d)
\* what the user sees is a function of the configuration alone (C17): follows from Conservation
OrderIndependent == Done => displayed = [d \in Defs |-> Expected(d)]

(* --------------------- schedules for the harness ---------------------- *)
\* one line per completed run: the configuration, the order taken and Ref's expected display
EmitSchedule == Done => PrintT(<<"CASE", ToJson([conf |-> conf, order |-> order,
                                               expect |-> [d \in Defs |-> Expected(d)]])>>)
=============================================================================
