---------------------------- MODULE Comments ----------------------------
(***************************************************************************)
(* Comment stripping (parser/src/parser_logic.rs `preprocess`).  C05, C04. *)
(*                                                                         *)
(* Ref  : a lexer with modes code | line | block and one symbol of         *)
(*        look-ahead -- the meaning of "line comments end at the next      *)
(*        newline and block comments at the first following star-slash".   *)
(* Imp  : the state machine of `preprocess` transcribed arm by arm (the    *)
(*        repaired algorithm of the `fix:` commit; ImpOrig is the          *)
(*        transcription of the pinned commit, kept to show what L1 finds). *)
(*                                                                         *)
(* Symbols: "/" "*" "n" (newline) "a" (ASCII letter) "e" (2-byte char)     *)
(* "q" (double quote).  "_" in an output is one blank byte.                *)
(***************************************************************************)
EXTENDS Naturals, Sequences, TLC, Json

CONSTANTS N,          \* maximal string length
          Alphabet    \* set of symbols

VARIABLE s

W(c) == IF c = "e" THEN 2 ELSE IF c = "w" THEN 4 ELSE 1
Blanks(c) == [i \in 1..W(c) |-> "_"]

RECURSIVE ByteLen(_)
ByteLen(t) == IF t = <<>> THEN 0 ELSE W(Head(t)) + ByteLen(Tail(t))

(* ------------------------------ Ref ---------------------------------- *)
\* result: out = output symbols (one per byte for blanked text), err = unclosed block comment,
\* mode = lexer mode at end of input, errAt = byte offset of the opener of the unclosed comment
RECURSIVE RefGo(_, _, _, _, _, _)
RefGo(t, i, mode, out, off, open) ==
  IF i > Len(t) THEN [out |-> out, err |-> (mode = "block"), mode |-> mode,
                      errAt |-> IF mode = "block" THEN open ELSE 0]
  ELSE LET c == t[i]
           nx == IF i < Len(t) THEN t[i+1] ELSE "eof" IN
    CASE mode = "code" /\ c = "/" /\ nx = "/" -> RefGo(t, i+2, "line", out \o <<"_", "_">>, off+2, open)
      [] mode = "code" /\ c = "/" /\ nx = "*" -> RefGo(t, i+2, "block", out \o <<"_", "_">>, off+2, off)
      [] mode = "code" -> RefGo(t, i+1, "code", Append(out, c), off+W(c), open)
      [] mode = "line" /\ c = "n" -> RefGo(t, i+1, "code", Append(out, "n"), off+1, open)
      [] mode = "line" -> RefGo(t, i+1, "line", out \o Blanks(c), off+W(c), open)
      [] mode = "block" /\ c = "*" /\ nx = "/" -> RefGo(t, i+2, "code", out \o <<"_", "_">>, off+2, open)
      [] mode = "block" -> RefGo(t, i+1, "block", out \o Blanks(c), off+W(c), open)
Ref(t) == RefGo(t, 1, "code", <<>>, 0, 0)

(* --------------------- Imp: preprocess() as repaired ------------------ *)
\* char_indices().peekable(); state 0 code, 1 line comment, 2 block comment
RECURSIVE ImpGo(_, _, _, _, _, _)
ImpGo(t, i, st, out, off, bs) ==
  IF i > Len(t) THEN (IF st = 2 THEN [out |-> out, err |-> TRUE, errAt |-> bs]
                                  ELSE [out |-> out, err |-> FALSE, errAt |-> 0])
  ELSE LET c == t[i]
           pk == IF i < Len(t) THEN t[i+1] ELSE "eof" IN
    CASE st = 0 /\ c = "/" /\ pk = "/" -> ImpGo(t, i+2, 1, out \o <<"_", "_">>, off+2, bs)
      [] st = 0 /\ c = "/" /\ pk = "*" -> ImpGo(t, i+2, 2, out \o <<"_", "_">>, off+2, off)
      [] st = 0 -> ImpGo(t, i+1, 0, Append(out, c), off+W(c), bs)
      [] st = 1 /\ c = "n" -> ImpGo(t, i+1, 0, Append(out, c), off+1, bs)
      [] st = 2 /\ c = "*" /\ pk = "/" -> ImpGo(t, i+2, 0, out \o <<"_", "_">>, off+2, bs)
      [] OTHER -> ImpGo(t, i+1, st, out \o Blanks(c), off+W(c), bs)
Imp(t) == ImpGo(t, 1, 0, <<>>, 0, 0)

(* --------- ImpOrig: preprocess() of the pinned commit (f697e7e) ------- *)
\* `loc` counts characters; (0,'/') consumes the next char unexamined; (2,'*') consumes the next
\* char; leaving the loop in state 2 returns Ok.
RECURSIVE OrigGo(_, _, _, _, _, _)
OrigGo(t, i, st, out, loc, bs) ==
  IF i > Len(t) THEN [out |-> out, err |-> FALSE, errAt |-> 0]
  ELSE LET c == t[i]
           has == i < Len(t)
           c1 == IF has THEN t[i+1] ELSE "eof" IN
    CASE st = 0 /\ c = "/" ->
           IF ~has THEN [out |-> Append(out, c), err |-> FALSE, errAt |-> 0]
           ELSE IF c1 = "/" THEN OrigGo(t, i+2, 1, out \o <<"_", "_">>, loc+2, bs)
           ELSE IF c1 = "*" THEN OrigGo(t, i+2, 2, out \o <<"_", "_">>, loc+2, loc+2)
           ELSE OrigGo(t, i+2, 0, out \o <<c, c1>>, loc+2, bs)
      [] st = 0 -> OrigGo(t, i+1, 0, Append(out, c), loc+1, bs)
      [] st = 1 /\ c = "n" -> OrigGo(t, i+1, 0, Append(out, c), loc+1, bs)
      [] st = 2 /\ c = "*" ->
           IF ~has THEN [out |-> out, err |-> TRUE, errAt |-> bs]
           ELSE IF c1 = "/" THEN OrigGo(t, i+2, 0, out \o <<"_", "_">>, loc+2, bs)
           ELSE OrigGo(t, i+2, 2, out \o <<"_">> \o Blanks(c1), loc+2, bs)
      [] OTHER -> OrigGo(t, i+1, st, out \o Blanks(c), loc+1, bs)
ImpOrig(t) == OrigGo(t, 1, 0, <<>>, 0, 0)

(* ------------------------- agreement (L1) ----------------------------- *)
\* a newline inside a comment may be kept or blanked
OutAgree(r, m) == /\ Len(r) = Len(m)
                  /\ \A k \in 1..Len(r) : \/ r[k] = m[k]
                                          \/ (r[k] = "_" /\ m[k] \in {"_", "n"})
                                          \/ (r[k] = "n" /\ m[k] = "n")
Agree(t, M(_)) == LET r == Ref(t)
                      m == M(t) IN
                  /\ r.err = m.err
                  /\ (~r.err => OutAgree(r.out, m.out))
                  /\ (r.err => r.errAt = m.errAt)

\* properties of Ref itself (sanity of the oracle)
RefLengthPreserving(t) == ~Ref(t).err => ByteLen(Ref(t).out) = ByteLen(t)

(* ------------------------- enumeration -------------------------------- *)
Init == s = <<>>
Next == /\ Len(s) < N
        /\ \E c \in Alphabet : s' = Append(s, c)
Spec == Init /\ [][Next]_s

\* one complete comment: begins with an opener, everything is blanked (newline kept), closed
IsComment(t) == LET r == Ref(t) IN
                /\ Len(t) >= 2 /\ ~r.err
                /\ t[1] = "/" /\ t[2] \in {"/", "*"}
                /\ \A k \in 1..Len(r.out) : r.out[k] \in {"_", "n"}

L1Agree == Agree(s, Imp)
L1AgreeOrig == Agree(s, ImpOrig)
L1RefSane == RefLengthPreserving(s)

Emit == PrintT(<<"CASE", ToJson([s |-> s, out |-> Ref(s).out, err |-> Ref(s).err, errAt |-> Ref(s).errAt,
                                  mode |-> Ref(s).mode, comment |-> IsComment(s)])>>)
=============================================================================
