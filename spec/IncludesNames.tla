--------------------------- MODULE IncludesNames ---------------------------
(***************************************************************************)
(* Include resolution with HOMONYMS (C19: `an include is resolved relative *)
(* to the including file and then through the -L libraries`).  Includes.tla *)
(* identifies a file with its base name, so it cannot say which of two      *)
(* files with one name an include denotes.  Here a file is a pair           *)
(* <<directory, name>>; an include statement carries a NAME; directories    *)
(* are two source directories and the library directory (-L lib).           *)
(*   Resolve(f, n) = <<dir(f), n>> if it exists, else <<lib, n>> if it      *)
(*                   exists, else unresolvable                              *)
(* The machine is the FileStack of Includes.tla (take_next / add_include /  *)
(* black list / user inputs).  Ref: the files read are exactly those        *)
(* reachable from the named files through Resolve, each once; user input    *)
(* iff named; one error per unresolvable include statement.                 *)
(***************************************************************************)
EXTENDS Integers, Sequences, FiniteSets, TLC, Json, SequencesExt

CONSTANTS Names, MaxFiles, MaxEdges, MaxNamed
Dirs == {"s1", "s2", "lib"}
AllFiles == Dirs \X Names

VARIABLES exists, inc, named, stack, black, userInputs, todoInc, reads, errors, pc
vars == <<exists, inc, named, stack, black, userInputs, todoInc, reads, errors, pc>>

Resolve(f, n) == IF <<f[1], n>> \in exists THEN <<f[1], n>>
                 ELSE IF <<"lib", n>> \in exists THEN <<"lib", n>>
                 ELSE <<"none", n>>
Seqs(S, k) == UNION {{q \in [1..j -> S] : \A a, b \in 1..j : a # b => q[a] # q[b]} : j \in 1..k}
Init == /\ exists \in {S \in SUBSET AllFiles : Cardinality(S) \in 1..MaxFiles}
        /\ inc \in {E \in SUBSET (exists \X Names) : Cardinality(E) <= MaxEdges}
        /\ named \in Seqs(exists, MaxNamed)
        \* only projects in which precedence matters: some name exists in two directories
        /\ \E a, b \in exists : a # b /\ a[2] = b[2]
        /\ stack = named /\ userInputs = {named[k] : k \in 1..Len(named)}
        /\ black = {} /\ todoInc = <<>> /\ reads = <<>> /\ errors = {} /\ pc = "take"
TakeNext == /\ pc = "take" /\ stack # <<>>
            /\ LET p == stack[Len(stack)] IN
               /\ stack' = SubSeq(stack, 1, Len(stack) - 1)
               /\ IF p \in black THEN UNCHANGED <<black, reads, todoInc, pc>>
                  ELSE /\ black' = black \cup {p}
                       /\ reads' = Append(reads, [f |-> p, user |-> p \in userInputs])
                       /\ todoInc' = SetToSeq({e \in inc : e[1] = p})
                       /\ pc' = "include"
            /\ UNCHANGED <<exists, inc, named, userInputs, errors>>
AddInclude == /\ pc = "include" /\ todoInc # <<>>
              /\ LET e == Head(todoInc)
                     g == Resolve(e[1], e[2]) IN
                 /\ todoInc' = Tail(todoInc)
                 /\ IF g[1] = "none" THEN errors' = errors \cup {e} /\ UNCHANGED stack
                    ELSE /\ stack' = IF g \in black THEN stack ELSE Append(stack, g)
                         /\ UNCHANGED errors
              /\ UNCHANGED <<exists, inc, named, black, userInputs, reads, pc>>
EndIncludes == pc = "include" /\ todoInc = <<>> /\ pc' = "take" /\ UNCHANGED <<exists, inc, named, stack, black, userInputs, todoInc, reads, errors>>
Finish == pc = "take" /\ stack = <<>> /\ pc' = "done" /\ UNCHANGED <<exists, inc, named, stack, black, userInputs, todoInc, reads, errors>>
Next == TakeNext \/ AddInclude \/ EndIncludes \/ Finish
Spec == Init /\ [][Next]_vars /\ WF_vars(Next)

NamedSet == {named[k] : k \in 1..Len(named)}
RECURSIVE ReachGo(_)
ReachGo(S) == LET nxt == {Resolve(e[1], e[2]) : e \in {x \in inc : x[1] \in S /\ Resolve(x[1], x[2])[1] # "none"}} \ S IN
              IF nxt = {} THEN S ELSE ReachGo(S \cup nxt)
Reachable == ReachGo(NamedSet)
Unresolved == {e \in inc : e[1] \in Reachable /\ Resolve(e[1], e[2])[1] = "none"}
Done == pc = "done"
EachOnce == \A a, b \in 1..Len(reads) : a # b => reads[a].f # reads[b].f
ReadsAreReachable == Done => {reads[k].f : k \in 1..Len(reads)} = Reachable
UserIffNamed == \A k \in 1..Len(reads) : reads[k].user <=> (reads[k].f \in NamedSet)
ErrorsExact == Done => errors = Unresolved
Terminates == <>Done
Emit == Done => PrintT(<<"CASE", ToJson([exists |-> SetToSeq(exists), inc |-> SetToSeq(inc), named |-> named,
                                       reachable |-> SetToSeq(Reachable), unresolved |-> SetToSeq(Unresolved)])>>)
=============================================================================
