--------------------------- MODULE RunnerTrace ---------------------------
(***************************************************************************)
(* Trace validation of what the user sees (C02, C03, C17, C19): one record *)
(* per run of the real binary.                                             *)
(*   opts     : [level, allow (sequence of ids)]                           *)
(*   produced : the reports an independent oracle says are produced, each  *)
(*              [stage ("parse" or a definition name), id, level, loc      *)
(*              ("named"/"included"/"none"), key (what stdout shows),      *)
(*              skey (what SARIF holds)]                                   *)
(*   defs     : names of the definitions of the named files                *)
(*   events   : stdout in order: [e |-> "analyzing", name] | [e |-> "diag",*)
(*              key] | [e |-> "summary", n] | [e |-> "other"]              *)
(*   exit     : process status;  sarif : [on, keys]                        *)
(* Accepted iff every diagnostic is an expected one of the stage it is     *)
(* printed in and not printed before, every expected one is printed, each  *)
(* named definition is analysed exactly once, the summary is the last      *)
(* line and counts the diagnostics, exit = 0 iff none, SARIF = displayed.  *)
(***************************************************************************)
EXTENDS Integers, Sequences, FiniteSets, TLC, Json, IOUtils

VARIABLE l
Rec == ndJsonDeserialize(IOEnv.TRACE)

Rank(x) == CASE x = "info" -> 0 [] x = "warning" -> 1 [] x = "error" -> 2
SeqSet(q) == {q[j] : j \in 1..Len(q)}
Show(r, o) == /\ Rank(r.level) >= Rank(o.level)
              /\ r.id \notin SeqSet(o.allow)
              /\ r.loc # "included"
Count(q, x) == Cardinality({j \in 1..Len(q) : q[j] = x})
SameBag(p, q) == Len(p) = Len(q) /\ \A x \in SeqSet(p) \cup SeqSet(q) : Count(p, x) = Count(q, x)

\* expected keys of a stage, after Ref's filter
RECURSIVE ExpKeys(_, _, _, _)
ExpKeys(run, stage, k, field) ==
  IF k > Len(run.produced) THEN <<>>
  ELSE LET r == run.produced[k] IN
       (IF r.stage = stage /\ Show(r, run.opts) THEN <<r[field]>> ELSE <<>>) \o ExpKeys(run, stage, k + 1, field)
RECURSIVE AllKeys(_, _, _)
AllKeys(run, k, field) ==
  IF k > Len(run.produced) THEN <<>>
  ELSE LET r == run.produced[k] IN
       (IF Show(r, run.opts) THEN <<r[field]>> ELSE <<>>) \o AllKeys(run, k + 1, field)

\* walk the events: acc = [stage, shown (keys), here (keys shown in this stage), analysed (names), ok, summary]
RECURSIVE Walk(_, _, _)
Walk(run, k, acc) ==
  IF k > Len(run.events) \/ ~acc.ok THEN acc
  ELSE LET ev == run.events[k] IN
    IF acc.summary # -1 THEN [acc EXCEPT !.ok = FALSE, !.why = "output after the summary line"]
    ELSE IF ev.e = "analyzing" THEN
        IF ev.name \notin SeqSet(run.defs) THEN [acc EXCEPT !.ok = FALSE, !.why = "analysed a definition that is not in a named file"]
        ELSE IF ev.name \in SeqSet(acc.analysed) THEN [acc EXCEPT !.ok = FALSE, !.why = "definition analysed twice"]
        ELSE IF ~SameBag(acc.here, ExpKeys(run, acc.stage, 1, "key")) THEN [acc EXCEPT !.ok = FALSE, !.why = "expected diagnostic of the previous stage missing"]
        ELSE Walk(run, k + 1, [acc EXCEPT !.stage = ev.name, !.here = <<>>, !.analysed = Append(@, ev.name)])
    ELSE IF ev.e = "diag" THEN
        LET exp == ExpKeys(run, acc.stage, 1, "key") IN
        IF Count(acc.here, ev.key) >= Count(exp, ev.key)
        THEN [acc EXCEPT !.ok = FALSE, !.why = "diagnostic not expected here (not produced, filtered out, or shown twice)"]
        ELSE Walk(run, k + 1, [acc EXCEPT !.here = Append(@, ev.key), !.shown = Append(@, ev.key)])
    ELSE IF ev.e = "summary" THEN
        IF ~SameBag(acc.here, ExpKeys(run, acc.stage, 1, "key")) THEN [acc EXCEPT !.ok = FALSE, !.why = "expected diagnostic of the last stage missing"]
        ELSE IF ev.n # Len(acc.shown) THEN [acc EXCEPT !.ok = FALSE, !.why = "summary count differs from the number of diagnostics"]
        ELSE Walk(run, k + 1, [acc EXCEPT !.summary = ev.n])
    ELSE Walk(run, k + 1, acc)

RunVerdict(run) ==
  LET acc == Walk(run, 1, [stage |-> "parse", shown |-> <<>>, here |-> <<>>, analysed |-> <<>>, ok |-> TRUE, summary |-> -1, why |-> ""]) IN
  IF ~acc.ok THEN acc.why
  ELSE IF acc.summary = -1 THEN "no summary line"
  ELSE IF run.exit \notin {0, 1} THEN "exit status is neither 0 nor 1"
  ELSE IF (run.exit = 0) # (acc.summary = 0) THEN "exit status does not match the summary"
  ELSE IF SeqSet(acc.analysed) # SeqSet(run.defs) THEN "a definition of a named file was not analysed"
  ELSE IF ~SameBag(acc.shown, AllKeys(run, 1, "key")) THEN "displayed diagnostics differ from the expected set"
  ELSE IF run.sarif.on /\ ~SameBag(run.sarif.keys, AllKeys(run, 1, "skey")) THEN "SARIF results differ from the displayed findings"
  ELSE "ok"

Init == l = 1
Next == l <= Len(Rec) /\ l' = l + 1
Spec == Init /\ [][Next]_l
Valid == (l <= Len(Rec)) => (RunVerdict(Rec[l]) = "ok" \/ PrintT(<<"REJECT", ToJson([idx |-> l, why |-> RunVerdict(Rec[l])])>>))
Accepted == TLCGet("stats").diameter = Len(Rec) + 1
=============================================================================
