SPECIFICATION Spec
INVARIANT Valid
INVARIANT Agrees
POSTCONDITION Accepted
CHECK_DEADLOCK FALSE
