------------------------- MODULE DominatorsTrace -------------------------
(***************************************************************************)
(* Trace validation for C15: results recorded from the real                *)
(* DominatorTree::new on random graphs beyond the exhaustive scope are     *)
(* checked against the path-based Ref of Dominators.tla.                   *)
(* Record: [n, e: <<<<a,b>>..>>, dom, idom, kids, df] (sequences, 1-based) *)
(***************************************************************************)
EXTENDS Integers, Sequences, FiniteSets, TLC, Json, IOUtils

VARIABLES l, rreach, rdom, ridom    \* rreach[d] = nodes reachable from the entry without passing through d
D == INSTANCE Dominators WITH MaxN <- 0, n <- 0, E <- {}, stage <- 0, rdom <- <<>>, ridom <- <<>>

Rec == ndJsonDeserialize(IOEnv.TRACE)
SeqSet(q) == {q[i] : i \in 1..Len(q)}

\* same definition as Dominators!Reach, over a pre-computed successor function (speed only)
RECURSIVE ReachF(_, _, _)
ReachF(succ, seen, d) ==
  LET nxt == {b \in UNION {succ[a] : a \in seen} : b # d /\ b \notin seen} IN
  IF nxt = {} THEN seen ELSE ReachF(succ, seen \cup nxt, d)

\* Ref's dominator sets and immediate dominators of the current record are state variables: TLC then
\* computes them once per record (LET-bound functions are re-evaluated at every use).
EdgesOf(r) == {<<r.e[i][1], r.e[i][2]>> : i \in 1..Len(r.e)}
RReach(r) == LET N == 0..(r.n - 1)
                 EE == EdgesOf(r)
                 succ == [a \in N |-> D!Succ(EE, a)] IN
             [d \in N |-> ReachF(succ, {0}, d)]
\* d dominates x iff d = x, or d is the entry, or x is unreachable once d is removed (one search per d, not per pair)
RDomFrom(r, rr) == LET N == 0..(r.n - 1) IN [x \in N |-> {d \in N : d = x \/ d = 0 \/ x \notin rr[d]}]
RIdom(r, dm) == [x \in 0..(r.n - 1) |-> LET S == dm[x] \ {x} IN
                   IF S = {} THEN -1 ELSE CHOOSE d \in S : \A o \in S : o \in dm[d]]

RecOK(r) ==
  LET N == 0..(r.n - 1)
      EE == EdgesOf(r) IN
  \A x \in N :
     /\ SeqSet(r.dom[x + 1]) = rdom[x]
     /\ r.idom[x + 1] = ridom[x]
     /\ SeqSet(r.kids[x + 1]) = {y \in N : ridom[y] = x}
     /\ SeqSet(r.df[x + 1]) = {j \in N : /\ \E q \in D!Pred(EE, j) : x \in rdom[q]
                                          /\ ~(x \in rdom[j] /\ x # j)}

Load(k) == IF k <= Len(Rec) THEN /\ rreach' = RReach(Rec[k])
                                 /\ rdom' = RDomFrom(Rec[k], rreach')
                                 /\ ridom' = RIdom(Rec[k], rdom')
           ELSE rreach' = <<>> /\ rdom' = <<>> /\ ridom' = <<>>
Init == /\ l = 1
        /\ rreach = IF Len(Rec) >= 1 THEN RReach(Rec[1]) ELSE <<>>
        /\ rdom = IF Len(Rec) >= 1 THEN RDomFrom(Rec[1], rreach) ELSE <<>>
        /\ ridom = IF Len(Rec) >= 1 THEN RIdom(Rec[1], rdom) ELSE <<>>
Next == l <= Len(Rec) /\ l' = l + 1 /\ Load(l + 1)
Spec == Init /\ [][Next]_<<l, rreach, rdom, ridom>>
Valid == (l <= Len(Rec)) => (RecOK(Rec[l]) \/ PrintT(<<"REJECT", ToJson([idx |-> l])>>))
Accepted == TLCGet("stats").diameter = Len(Rec) + 1
=============================================================================
