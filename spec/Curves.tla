------------------------------ MODULE Curves ------------------------------
(***************************************************************************)
(* Curve-dependent checks (C11): the documented template/curve table of    *)
(* doc/analysis_passes.md (names in Circomlib's spelling), the Num2Bits /  *)
(* Bits2Num size rule under the default curve, the LessThan range-check    *)
(* rule, and the accepted curve names.                                     *)
(***************************************************************************)
EXTENDS Integers, Sequences, FiniteSets, TLC, Json

CurveNames == {"BN254", "BLS12_381", "GOLDILOCKS"}      \* accepted case-insensitively, nothing else
PrimeBits == [c \in CurveNames |-> CASE c = "BN254" -> 254 [] c = "BLS12_381" -> 255 [] c = "GOLDILOCKS" -> 64]
PrimeDecimal == [c \in CurveNames |->
   CASE c = "BN254" -> "21888242871839275222246405745257275088548364400416034343698204186575808495617"
     [] c = "BLS12_381" -> "52435875175126190479447740508185965837690552500527637822603658699938581184513"
     [] c = "GOLDILOCKS" -> "18446744069414584321"]

\* doc/analysis_passes.md, section "BN254 specific circuit" (x = should not be used with that curve)
GoldilocksTable == {"BabyPbk", "AliasCheck", "CompConstant", "Num2Bits_strict", "Bits2Num_strict", "EdDSAVerifier", "EdDSAMiMCVerifier", "EdDSAMiMCSpongeVerifier", "EdDSAPoseidonVerifier", "EscalarMulAny", "MiMC7", "MultiMiMC7", "MiMCFeistel", "MiMCSponge", "Pedersen", "Bits2Point_Strict", "Point2Bits_Strict", "PoseidonEx", "Poseidon", "Sign", "SMTHash1", "SMTHash2", "SMTProcessor", "SMTProcessorLevel", "SMTVerifier", "SMTVerifierLevel"}
Bls12381Table == {"AliasCheck", "Bits2Num_strict", "Num2Bits_strict", "CompConstant", "EdDSAVerifier", "EdDSAMiMCVerifier", "EdDSAMiMCSpongeVerifier", "EdDSAPoseidonVerifier", "Bits2Point_Strict", "Point2Bits_Strict", "Sign", "SMTProcessor", "SMTVerifier"}
Table == [c \in CurveNames |-> CASE c = "BN254" -> {} [] c = "BLS12_381" -> Bls12381Table [] c = "GOLDILOCKS" -> GoldilocksTable]
\* names that must NOT be flagged: case changes, _strict/_Strict swaps, one character dropped or added
NearMisses == {"ALIASCHECK", "AliasChec", "AliasCheck2", "BABYPBK", "BITS2NUM_STRICT", "BITS2POINT_STRICT", "BabyPb", "BabyPbk2", "Bits2Num_Strict", "Bits2Num_stric", "Bits2Num_strict2", "Bits2Point_Stric", "Bits2Point_Strict2", "Bits2Point_strict", "COMPCONSTANT", "CompConstan", "CompConstant2", "EDDSAMIMCSPONGEVERIFIER", "EDDSAMIMCVERIFIER", "EDDSAPOSEIDONVERIFIER", "EDDSAVERIFIER", "ESCALARMULANY", "EdDSAMiMCSpongeVerifie", "EdDSAMiMCSpongeVerifier2", "EdDSAMiMCVerifie", "EdDSAMiMCVerifier2", "EdDSAPoseidonVerifie", "EdDSAPoseidonVerifier2", "EdDSAVerifie", "EdDSAVerifier2", "EscalarMulAn", "EscalarMulAny2", "MIMC7", "MIMCFEISTEL", "MIMCSPONGE", "MULTIMIMC7", "MiMC", "MiMC72", "MiMCFeiste", "MiMCFeistel2", "MiMCSpong", "MiMCSponge2", "MultiMiMC", "MultiMiMC72", "NUM2BITS_STRICT", "Num2Bits_Strict", "Num2Bits_stric", "Num2Bits_strict2", "PEDERSEN", "POINT2BITS_STRICT", "POSEIDON", "POSEIDONEX", "Pederse", "Pedersen2", "Point2Bits_Stric", "Point2Bits_Strict2", "Point2Bits_strict", "Poseido", "Poseidon2", "PoseidonE", "PoseidonEx2", "SIGN", "SMTHASH1", "SMTHASH2", "SMTHash", "SMTHash12", "SMTHash22", "SMTPROCESSOR", "SMTPROCESSORLEVEL", "SMTProcesso", "SMTProcessor2", "SMTProcessorLeve", "SMTProcessorLevel2", "SMTVERIFIER", "SMTVERIFIERLEVEL", "SMTVerifie", "SMTVerifier2", "SMTVerifierLeve", "SMTVerifierLevel2", "Sig", "Sign2", "aliasCheck", "aliascheck", "babyPbk", "babypbk", "bits2Num_strict", "bits2Point_Strict", "bits2num_strict", "bits2point_strict", "compConstant", "compconstant", "edDSAMiMCSpongeVerifier", "edDSAMiMCVerifier", "edDSAPoseidonVerifier", "edDSAVerifier", "eddsamimcspongeverifier", "eddsamimcverifier", "eddsaposeidonverifier", "eddsaverifier", "escalarMulAny", "escalarmulany", "miMC7", "miMCFeistel", "miMCSponge", "mimc7", "mimcfeistel", "mimcsponge", "multiMiMC7", "multimimc7", "num2Bits_strict", "num2bits_strict", "pedersen", "point2Bits_Strict", "point2bits_strict", "poseidon", "poseidonEx", "poseidonex", "sMTHash1", "sMTHash2", "sMTProcessor", "sMTProcessorLevel", "sMTVerifier", "sMTVerifierLevel", "sign", "smthash1", "smthash2", "smtprocessor", "smtprocessorlevel", "smtverifier", "smtverifierlevel"}

Bn254Specific(curve, name) == name \in Table[curve]

\* a size argument: [k |-> "const", v |-> n] | [k |-> "mul2", v |-> m] (the constant expression 2*m)
\*                | [k |-> "param", v |-> 0] (a template parameter) | [k |-> "param1", v |-> 0] (parameter + 1)
IsConst(f) == f.k \in {"const", "mul2"}
ValOf(f) == IF f.k = "const" THEN f.v ELSE 2 * f.v
\* Num2Bits(n) / Bits2Num(n) under the default curve: flagged unless n is a constant below the prime size
NonStrict(curve, f) == curve = "BN254" /\ ~(IsConst(f) /\ ValOf(f) < PrimeBits["BN254"])
\* LessThan input range-checked by Num2Bits(k): every k-bit value is non-negative, 2^k - 1 <= p/2.
\* For a b-bit prime that is not of the form 2^b - 1 this is k <= b - 2 (lemma checked below on small primes).
RangeChecked(curve, f) == IsConst(f) /\ ValOf(f) <= PrimeBits[curve] - 2

RECURSIVE Bits(_)
Bits(n) == IF n = 0 THEN 0 ELSE 1 + Bits(n \div 2)
RECURSIVE Pow2(_)
Pow2(k) == IF k = 0 THEN 1 ELSE 2 * Pow2(k - 1)
SmallPrimes == {5, 11, 13, 17, 19, 23, 29, 37, 41, 43, 47, 53, 59, 61, 67, 71, 73, 79, 83, 89, 97, 101, 103, 107, 109, 113, 251, 257, 65537}
ASSUME ThresholdLemma == \A p \in SmallPrimes : \A k \in 0..20 :
          (Pow2(k) - 1 <= (p - 1) \div 2) <=> (k <= Bits(p) - 2)

(* ---------------------------- enumeration ----------------------------- *)
VARIABLE case
Forms == [k : {"const"}, v : 0..300] \cup [k : {"mul2"}, v : {100, 126, 127, 128, 150}] \cup [k : {"param", "param1"}, v : {0}]
Init == \/ \E c \in CurveNames, n \in GoldilocksTable \cup NearMisses :
             case = [kind |-> "table", curve |-> c, name |-> n, form |-> [k |-> "const", v |-> 0], flagged |-> Bn254Specific(c, n)]
        \/ \E c \in CurveNames, t \in {"Num2Bits", "Bits2Num"}, f \in Forms :
             case = [kind |-> "size", curve |-> c, name |-> t, form |-> f, flagged |-> NonStrict(c, f)]
        \/ \E c \in CurveNames, f \in Forms :
             case = [kind |-> "lessthan", curve |-> c, name |-> "LessThan", form |-> f, flagged |-> ~RangeChecked(c, f)]
Next == UNCHANGED case
Spec == Init /\ [][Next]_case
Emit == PrintT(<<"CASE", ToJson(case)>>)
EmitNames == PrintT(<<"CURVES", ToJson([c \in CurveNames |-> [bits |-> PrimeBits[c], prime |-> PrimeDecimal[c]]])>>)
\* never under BN254
NeverUnderDefault == (case.kind = "table" /\ case.curve = "BN254") => ~case.flagged
=============================================================================
