-------------------------- MODULE PipelineTrace --------------------------
(***************************************************************************)
(* Trace validation of one run of the real binary against Pipeline.tla's   *)
(* Ref (C01, C02).  Record:                                                *)
(*   faults   : sequence of fault classes present in the scenario          *)
(*   expect   : definitions of the named files that must be analysed when  *)
(*              the run is clean (a sequence of names)                     *)
(*   events   : [e |-> "analyzing", name] | [e |-> "diag", sev, classes    *)
(*              (fault classes the diagnostic's id and message match)] |   *)
(*              [e |-> "summary", n] | [e |-> "other"]                     *)
(*   exit     : status (-1: killed by the time / memory cap), crash: text   *)
(* C01 clauses: the run ends by itself with status 0 or 1, the summary is  *)
(* the last output line and matches the status.  C02 clauses: every fault  *)
(* class present has an error-level diagnostic and the status is 1; a      *)
(* clean run analysed every expected definition.                           *)
(***************************************************************************)
EXTENDS Integers, Sequences, FiniteSets, TLC, Json, IOUtils

VARIABLE l
Rec == ndJsonDeserialize(IOEnv.TRACE)
SeqSet(q) == {q[j] : j \in 1..Len(q)}

Diags(r) == {k \in 1..Len(r.events) : r.events[k].e = "diag"}
Summaries(r) == {k \in 1..Len(r.events) : r.events[k].e = "summary"}
Analysed(r) == {r.events[k].name : k \in {j \in 1..Len(r.events) : r.events[j].e = "analyzing"}}
LastIsSummary(r) == Len(r.events) > 0 /\ r.events[Len(r.events)].e = "summary"

Totality(r) ==
  IF r.exit \notin {0, 1} THEN "abnormal termination (panic, abort, kill or time-out)"
  ELSE IF Cardinality(Summaries(r)) # 1 \/ ~LastIsSummary(r) THEN "no summary as last line"
  ELSE LET n == r.events[Len(r.events)].n IN
       IF n # Cardinality(Diags(r)) THEN "summary count differs from the diagnostics shown"
       ELSE IF (r.exit = 0) # (n = 0) THEN "exit status does not match the summary"
       ELSE "ok"

NoSilentFailure(r) ==
  LET missing == {c \in SeqSet(r.faults) : ~\E k \in Diags(r) : r.events[k].sev = "error" /\ c \in SeqSet(r.events[k].classes)} IN
  IF missing # {} THEN "failure not reported by an error-level diagnostic"
  ELSE IF r.faults # <<>> /\ r.exit = 0 THEN "failure present but exit status 0"
  ELSE IF r.exit = 0 /\ ~(SeqSet(r.expect) \subseteq Analysed(r)) THEN "clean result although a definition was not analysed"
  ELSE "ok"

Verdict(r) == IF Totality(r) # "ok" THEN Totality(r) ELSE NoSilentFailure(r)

Init == l = 1
Next == l <= Len(Rec) /\ l' = l + 1
Spec == Init /\ [][Next]_l
Valid == (l <= Len(Rec)) => (Verdict(Rec[l]) = "ok" \/ PrintT(<<"REJECT", ToJson([idx |-> l, why |-> Verdict(Rec[l])])>>))
Accepted == TLCGet("stats").diameter = Len(Rec) + 1
=============================================================================
