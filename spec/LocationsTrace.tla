-------------------------- MODULE LocationsTrace --------------------------
(***************************************************************************)
(* Trace validation for C04.  Record:                                      *)
(*   files  : sequence of [id, known, chars (sequence of [w, nl])]         *)
(*   labels : sequence of [file (index into files, 0 = unknown file id),   *)
(*            s, e, primary, sl, sc, el, ec (line/column the tool printed  *)
(*            or wrote to SARIF; 0 = not observed)]                        *)
(* A label is accepted iff its file was read, its range is valid in the    *)
(* sense of Locations.tla, and every observed line/column equals the one   *)
(* recomputed from the original characters.                                *)
(***************************************************************************)
EXTENDS Integers, Sequences, FiniteSets, TLC, Json, IOUtils

VARIABLES l, offs      \* record index; Loc!Offsets of every file of the current record (computed once per record)
Loc == INSTANCE Locations WITH MaxChars <- 0, file <- <<>>
Rec == ndJsonDeserialize(IOEnv.TRACE)

\* the definitions of Locations.tla over a pre-computed offset sequence o of the characters f
IsB(o, off) == \E k \in 1..Len(o) : o[k] = off
CharIdx(o, off) == CHOOSE k \in 1..Len(o) : o[k] = off
LineOf(f, o, off) == 1 + Cardinality({k \in 1..Len(f) : f[k].nl /\ o[k + 1] <= off})
LineStart(f, o, off) == LET nls == {k \in 1..Len(f) : f[k].nl /\ o[k + 1] <= off} IN
                        IF nls = {} THEN 1 ELSE 1 + CHOOSE k \in nls : \A j \in nls : j <= k
ColOf(f, o, off) == 1 + (CharIdx(o, off) - LineStart(f, o, off))

LabelVerdict(r, lb) ==
  IF lb.file = 0 \/ lb.file > Len(r.files) THEN "label names a file that was not read"
  ELSE LET f == r.files[lb.file].chars
           o == offs[lb.file] IN
       IF lb.s > lb.e THEN "label range has start > end"
       ELSE IF lb.e > o[Len(o)] THEN "label range lies outside the file"
       ELSE IF ~IsB(o, lb.s) \/ ~IsB(o, lb.e) THEN "label range does not fall on character boundaries"
       ELSE IF lb.sl # 0 /\ (lb.sl # LineOf(f, o, lb.s) \/ lb.sc # ColOf(f, o, lb.s)) THEN "start line/column differ from the original source position"
       ELSE IF lb.el # 0 /\ (lb.el # LineOf(f, o, lb.e) \/ lb.ec # ColOf(f, o, lb.e)) THEN "end line/column differ from the original source position"
       ELSE "ok"
RecVerdict(r) == LET bad == {k \in 1..Len(r.labels) : LabelVerdict(r, r.labels[k]) # "ok"} IN
                 IF bad = {} THEN [why |-> "ok", label |-> 0]
                 ELSE LET k == CHOOSE x \in bad : \A y \in bad : x <= y IN [why |-> LabelVerdict(r, r.labels[k]), label |-> k]
OffsOf(k) == IF k <= Len(Rec) THEN [j \in 1..Len(Rec[k].files) |-> Loc!Offsets(Rec[k].files[j].chars)] ELSE <<>>
Init == l = 1 /\ offs = OffsOf(1)
Next == l <= Len(Rec) /\ l' = l + 1 /\ offs' = OffsOf(l + 1)
Spec == Init /\ [][Next]_<<l, offs>>
\* the pre-computed offsets are those of Locations.tla; Line / Col agree with its definitions (checked on the first label of each record)
Agrees == (l <= Len(Rec) /\ Len(Rec[l].labels) > 0 /\ Rec[l].labels[1].file # 0 /\ Rec[l].labels[1].file <= Len(Rec[l].files)
           /\ Len(Rec[l].files[Rec[l].labels[1].file].chars) <= 60) =>      \* (Locations.tla's own definitions are cubic in the file length)
             LET lb == Rec[l].labels[1]
                 f == Rec[l].files[lb.file].chars IN
             Loc!Valid(f, lb.s, lb.e) => (LineOf(f, offs[lb.file], lb.s) = Loc!Line(f, lb.s) /\ ColOf(f, offs[lb.file], lb.s) = Loc!Col(f, lb.s))
Valid == (l <= Len(Rec)) => (RecVerdict(Rec[l]).why = "ok" \/ PrintT(<<"REJECT", ToJson([idx |-> l, why |-> RecVerdict(Rec[l]).why, label |-> RecVerdict(Rec[l]).label])>>))
Accepted == TLCGet("stats").diameter = Len(Rec) + 1
=============================================================================
