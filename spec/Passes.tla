------------------------------ MODULE Passes ------------------------------
(***************************************************************************)
(* The syntactic analysis passes (beyond the 20 listed properties; part of *)
(* the growing specification): `field element arithmetic` (CS0004),        *)
(* `field element comparison` (CS0003) and `bitwise complement` (CS0004)   *)
(* of program_analysis/src/{field_arithmetic, field_comparisons,           *)
(* bitwise_complement}.rs, per doc/analysis_passes.md.                     *)
(*                                                                         *)
(* Ref over the abstract expression trees of a definition (the records of  *)
(* Semantics.tla): walking every root expression of every statement,       *)
(*   Arith : the OUTERMOST infix nodes whose operator can over/underflow   *)
(*           (mul div add sub pow shl shr); nothing reported inside it;   *)
(*   Cmp   : the outermost ordering comparisons (< <= > >=);               *)
(*   Compl : every `~` node not nested inside another `~`.                 *)
(* A record carries what the real passes reported (node ids by finding     *)
(* kind); it is accepted iff the three sets are exactly Ref's.             *)
(***************************************************************************)
EXTENDS Integers, Sequences, FiniteSets, TLC, Json, IOUtils

VARIABLE l
Rec == ndJsonDeserialize(IOEnv.TRACE)
SeqSet(q) == {q[j] : j \in 1..Len(q)}
Overflow == {"mul", "div", "add", "sub", "pow", "shift_l", "shift_r"}
Ordering == {"lesser_eq", "greater_eq", "lesser", "greater"}

Kids(nd) == CASE nd.k = "bin" -> {nd.l, nd.r} [] nd.k = "un" -> {nd.r} [] nd.k = "tern" -> {nd.c, nd.l, nd.r} [] OTHER -> {}
IsArith(nd) == nd.k = "bin" /\ nd.op \in Overflow
IsCmp(nd) == nd.k = "bin" /\ nd.op \in Ordering
IsCompl(nd) == nd.k = "un" /\ nd.op = "complement_256"
Hit(kind, nd) == CASE kind = "arith" -> IsArith(nd) [] kind = "cmp" -> IsCmp(nd) [] kind = "compl" -> IsCompl(nd)
\* outermost nodes below e that satisfy Hit; no descent into a hit
RECURSIVE Outer(_, _, _)
Outer(pr, e, kind) == IF e = 0 THEN {} ELSE
                      LET nd == pr.exprs[e] IN
                      IF Hit(kind, nd) THEN {e} ELSE UNION {Outer(pr, k, kind) : k \in Kids(nd)}
Roots(pr) == UNION {{pr.stmts[s].e, pr.stmts[s].e2} : s \in 1..Len(pr.stmts)} \ {0}
Expected(pr, kind) == UNION {Outer(pr, e, kind) : e \in Roots(pr)}

Verdict(r) == IF SeqSet(r.arith) # Expected(r, "arith") THEN "field-arithmetic findings differ from the outermost overflowing operations"
              ELSE IF SeqSet(r.cmp) # Expected(r, "cmp") THEN "field-comparison findings differ from the outermost ordering comparisons"
              ELSE IF SeqSet(r.compl) # Expected(r, "compl") THEN "bitwise-complement findings differ from the complement nodes"
              ELSE "ok"
Init == l = 1
Next == l <= Len(Rec) /\ l' = l + 1
Spec == Init /\ [][Next]_l
Valid == (l <= Len(Rec)) => (Verdict(Rec[l]) = "ok" \/ PrintT(<<"REJECT", ToJson([idx |-> l, why |-> Verdict(Rec[l])])>>))
Accepted == TLCGet("stats").diameter = Len(Rec) + 1
=============================================================================
