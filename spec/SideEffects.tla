---------------------------- MODULE SideEffects ----------------------------
(***************************************************************************)
(* Impl model of the side-effect analysis (program_analysis/src/           *)
(* {taint_analysis, constraint_analysis, side_effect_analysis}.rs): the    *)
(* pass behind `value never read`, `no side effect`, `parameter never      *)
(* used`, `signal not used` and `signal not constrained` (C09 judges the   *)
(* truth of the first three kinds by self-composition; this module         *)
(* describes how the tool arrives at them).                                *)
(*                                                                         *)
(* A record is one definition in SSA form as exported from the real code:  *)
(* per statement the cached variable uses (read / written / used), the     *)
(* graph with its dominance frontiers (validated by C15 / C12), the        *)
(* declarations; and `found`, the findings of the real pass as (kind,      *)
(* displayed name) pairs with multiplicity.  The record is accepted iff    *)
(* the model derives exactly these findings.  A difference is DRIFT, not   *)
(* a violation of a listed property (check X03).                           *)
(*                                                                         *)
(* Steps of the analysis, as in the code:                                  *)
(*  taint     x -> y  : y is assigned in a statement reading x; y is       *)
(*                      declared with a dimension reading x; y is assigned *)
(*                      in a branch of an `if` whose (non-constant)        *)
(*                      condition reads x                                  *)
(*  constrain x -- y  : x and y occur together in `===` or `<==`           *)
(*  sinks              : input/output signals; variables constrained       *)
(*                      (transitively) together with something they taint; *)
(*                      variables read by declarations (dimensions),       *)
(*                      returns, asserts, conditions                       *)
(*  findings           : a definition nobody reads -> never read (unless   *)
(*                      exported); a definition that taints no sink ->     *)
(*                      no side effect; a signal neither read nor written  *)
(*                      -> unused; a signal that taints no constrained     *)
(*                      variable (templates only) -> unconstrained         *)
(***************************************************************************)
EXTENDS Integers, Sequences, FiniteSets, TLC, Json, IOUtils

Rec == ndJsonDeserialize(IOEnv.TRACE)
VARIABLE l
SeqSet(q) == {q[j] : j \in 1..Len(q)}

NB(r) == Len(r.blocks)
Stmts(r) == UNION {{<<b, i>> : i \in 1..Len(r.blocks[b].stmts)} : b \in 1..NB(r)}
St(r, p) == r.blocks[p[1]].stmts[p[2]]
BlockWrites(r, b) == UNION {SeqSet(r.blocks[b].stmts[i].vw) : i \in 1..Len(r.blocks[b].stmts)}
BlockReads(r, b) == UNION {SeqSet(r.blocks[b].stmts[i].vr) : i \in 1..Len(r.blocks[b].stmts)}

(* --------------------------- branch bodies ---------------------------- *)
\* Cfg::get_interval / get_true_branch / get_false_branch
RECURSIVE Closure(_, _, _)
Closure(r, seen, fwd) == LET nxt == UNION {SeqSet(IF fwd THEN r.blocks[b].succs ELSE r.blocks[b].preds) : b \in seen} IN
                         IF nxt \subseteq seen THEN seen ELSE Closure(r, seen \cup nxt, fwd)
Interval(r, start, end) == Closure(r, {start}, TRUE) \cap (Closure(r, {end}, FALSE) \ {end})
Branch(r, start) == LET ends == SeqSet(r.blocks[start].df) IN
                    IF ends = {} THEN Closure(r, {start}, TRUE)
                    ELSE UNION {Interval(r, start, e) : e \in ends}
TrueBranch(r, st) == Branch(r, st.t)
FalseBranch(r, st) == IF st.f = 0 \/ st.f \in SeqSet(r.blocks[st.t].df) THEN {} ELSE Branch(r, st.f)

(* ------------------------------- taint -------------------------------- *)
TaintSteps(r) ==
  UNION {LET st == St(r, p) IN
         CASE st.k = "sub" -> SeqSet(st.vr) \X SeqSet(st.vw)
           [] st.k = "decl" -> SeqSet(st.vr) \X SeqSet(st.names)
           [] st.k = "if" /\ ~st.condknown ->
                SeqSet(st.vr) \X UNION {BlockWrites(r, b) : b \in TrueBranch(r, st) \cup FalseBranch(r, st)}
           [] OTHER -> {}
         : p \in Stmts(r)}
RECURSIVE Reach(_, _)
Reach(steps, seen) == LET nxt == {e[2] : e \in {s \in steps : s[1] \in seen}} IN
                      IF nxt \subseteq seen THEN seen ELSE Reach(steps, seen \cup nxt)
MultiTaint(r, x) == Reach(TaintSteps(r), {x})                   \* zero or more steps
(* ----------------------------- constraints ---------------------------- *)
ConstraintSteps(r) ==
  UNION {LET st == St(r, p) IN
         IF st.k = "ceq" \/ (st.k = "sub" /\ st.op = "<==")
         THEN {e \in SeqSet(st.vu) \X SeqSet(st.vu) : e[1] # e[2]} ELSE {}
         : p \in Stmts(r)}
MultiConstraint(r, x) == LET cs == ConstraintSteps(r)
                             first == {e[2] : e \in {s \in cs : s[1] = x}} IN
                         IF first = {} THEN {} ELSE Reach(cs, first)   \* one or more steps
Constrained(r) == {e[1] : e \in ConstraintSteps(r)}

(* ------------------------------ findings ------------------------------ *)
Exported(r) == {r.decls[i].n : i \in {j \in 1..Len(r.decls) : r.decls[j].ty \in {"input", "output"}}}
Signals(r) == {i \in 1..Len(r.decls) : r.decls[i].ty \in {"input", "output", "signal"}}
Params(r) == SeqSet(r.params)
Reads(r) == UNION {BlockReads(r, b) : b \in 1..NB(r)}
Writes(r) == UNION {BlockWrites(r, b) : b \in 1..NB(r)}
\* definitions: parameters, and every variable written by an assignment that is not a phi statement
Definitions(r) == Params(r) \cup UNION {IF St(r, p).k = "sub" /\ ~St(r, p).phi THEN SeqSet(St(r, p).vw) ELSE {} : p \in Stmts(r)}
Sinks(r) ==
  LET expSinks == UNION {MultiTaint(r, x) : x \in Exported(r)} IN
  UNION {LET m == MultiConstraint(r, s) IN IF m = {} THEN {} ELSE m \cup {s} : s \in expSinks}
  \cup Exported(r)
  \cup UNION {IF St(r, p).k \in {"decl", "ret", "assert", "if"} THEN SeqSet(St(r, p).vr) ELSE {} : p \in Stmts(r)}
Disp(r, x) == r.disp[x]
\* findings as a set of <<kind, variable>>; the record's `found` lists <<kind, displayed name, count>>
DefFindings(r) ==
  LET sinks == Sinks(r)
      rd == Reads(r) IN
  {<<IF x \notin rd THEN (IF x \in Params(r) THEN "unused-param" ELSE "unused-var")
     ELSE (IF x \in Params(r) THEN "noeffect-param" ELSE "noeffect-var"), x>>
   : x \in {y \in Definitions(r) : /\ Disp(r, y) # "_"
                                   /\ \/ (y \notin rd /\ y \notin Exported(r))
                                      \/ (y \in rd /\ MultiTaint(r, y) \cap sinks = {})}}
SignalFindings(r) ==
  LET reported == {Disp(r, f[2]) : f \in DefFindings(r)}
      rd == Reads(r)
      wr == Writes(r) IN
  {<<IF r.decls[i].n \notin rd /\ r.decls[i].n \notin wr THEN "unused-signal" ELSE "unconstrained-signal", r.decls[i].n>>
   : i \in {j \in Signals(r) : /\ Disp(r, r.decls[j].n) # "_"
                               /\ Disp(r, r.decls[j].n) \notin reported
                               /\ \/ (r.decls[j].n \notin rd /\ r.decls[j].n \notin wr)
                                  \/ (r.template /\ MultiTaint(r, r.decls[j].n) \cap Constrained(r) = {})}}
Model(r) == DefFindings(r) \cup SignalFindings(r)
\* compared as multisets of <<kind, displayed name>>
Count(S, kind, name, r) == Cardinality({f \in S : f[1] = kind /\ Disp(r, f[2]) = name})
Pairs(r) == {<<f[1], Disp(r, f[2])>> : f \in Model(r)} \cup {<<r.found[i].kind, r.found[i].name>> : i \in 1..Len(r.found)}
FoundCount(r, kind, name) == LET hits == {i \in 1..Len(r.found) : r.found[i].kind = kind /\ r.found[i].name = name} IN
                             IF hits = {} THEN 0 ELSE r.found[CHOOSE i \in hits : TRUE].n
Diff(r) == {p \in Pairs(r) : Count(Model(r), p[1], p[2], r) # FoundCount(r, p[1], p[2])}

Init == l = 1
Next == l <= Len(Rec) /\ l' = l + 1
Spec == Init /\ [][Next]_l
Conforms == (l <= Len(Rec)) =>
   (Rec[l].kind = "skip" \/ Diff(Rec[l]) = {} \/
    LET p == CHOOSE q \in Diff(Rec[l]) : TRUE IN
    PrintT(<<"REJECT", ToJson([idx |-> l, kind |-> p[1], name |-> p[2], model |-> Count(Model(Rec[l]), p[1], p[2], Rec[l]),
                               code |-> FoundCount(Rec[l], p[1], p[2])])>>))
Consumed == (l = Len(Rec) + 1) => PrintT(<<"CONSUMED", ToJson([n |-> Len(Rec)])>>)
=============================================================================
