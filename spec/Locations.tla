----------------------------- MODULE Locations -----------------------------
(***************************************************************************)
(* Source locations (C04).  A file is a sequence of characters, each with  *)
(* a byte width 1..4 and a flag `newline`.  A label is a byte range        *)
(* [s, e).  Ref:                                                           *)
(*   Valid(file, s, e)  ==  0 <= s <= e <= ByteLen(file), and both ends    *)
(*                          fall on character boundaries;                  *)
(*   Line(file, off)    ==  1 + number of newline characters that end at   *)
(*                          or before off;                                 *)
(*   Col(file, off)     ==  1 + number of characters between the start of  *)
(*                          that line and off  (codespan's convention,     *)
(*                          which the terminal output and the SARIF file   *)
(*                          use);                                          *)
(* all with respect to the ORIGINAL file contents: the comment stripper    *)
(* preserves byte length (Comments.tla, RefLengthPreserving and the        *)
(* agreement of Imp), so offsets in the stripped text are offsets in the   *)
(* original.                                                               *)
(* The module is used by LocationsTrace.tla; here its definitions are      *)
(* sanity-checked on all small files (TLC): offsets of boundaries are      *)
(* strictly increasing, Line/Col invert to the offset, the last boundary   *)
(* is the byte length.                                                     *)
(***************************************************************************)
EXTENDS Integers, Sequences, FiniteSets, TLC

\* prefix sums: Offsets(f)[k] = byte offset of character k (1-based), Offsets(f)[Len(f)+1] = byte length.
\* (divide and conquer, so that the recursion depth is logarithmic in the file length)
RECURSIVE SumW(_, _, _)
SumW(f, lo, hi) == IF lo > hi THEN 0 ELSE IF lo = hi THEN f[lo].w
                   ELSE LET mid == (lo + hi) \div 2 IN SumW(f, lo, mid) + SumW(f, mid + 1, hi)
RECURSIVE OffGo(_, _, _, _)
OffGo(f, lo, hi, base) == IF lo > hi THEN <<>> ELSE IF lo = hi THEN <<base>>
                          ELSE LET mid == (lo + hi) \div 2 IN OffGo(f, lo, mid, base) \o OffGo(f, mid + 1, hi, base + SumW(f, lo, mid))
Offsets(f) == OffGo(f, 1, Len(f), 0) \o <<SumW(f, 1, Len(f))>>
ByteLen(f) == Offsets(f)[Len(f) + 1]
IsBoundary(f, off) == \E k \in 1..(Len(f) + 1) : Offsets(f)[k] = off
CharIndex(f, off) == CHOOSE k \in 1..(Len(f) + 1) : Offsets(f)[k] = off          \* index of the character starting at off
Valid(f, s, e) == 0 <= s /\ s <= e /\ e <= ByteLen(f) /\ IsBoundary(f, s) /\ IsBoundary(f, e)
Line(f, off) == 1 + Cardinality({k \in 1..Len(f) : f[k].nl /\ Offsets(f)[k + 1] <= off})
LineStartChar(f, off) == LET nls == {k \in 1..Len(f) : f[k].nl /\ Offsets(f)[k + 1] <= off} IN
                         IF nls = {} THEN 1 ELSE 1 + CHOOSE k \in nls : \A j \in nls : j <= k
Col(f, off) == 1 + (CharIndex(f, off) - LineStartChar(f, off))

(* ----------- sanity of the definitions on all small files -------------- *)
CONSTANTS MaxChars
VARIABLE file
Chars == [w : 1..4, nl : BOOLEAN]
Init == file = <<>>
Next == Len(file) < MaxChars /\ \E c \in {x \in Chars : x.nl => x.w = 1} : file' = Append(file, c)
Spec == Init /\ [][Next]_file
Sane == LET o == Offsets(file) IN
        /\ \A k \in 1..Len(file) : o[k] < o[k + 1]
        /\ \A k \in 1..(Len(file) + 1) :
              /\ Valid(file, o[k], o[k])
              /\ Line(file, o[k]) = 1 + Cardinality({j \in 1..(k - 1) : file[j].nl})
              /\ Col(file, o[k]) >= 1
              /\ (k > 1 /\ file[k - 1].nl) => Col(file, o[k]) = 1
        /\ \A off \in 0..ByteLen(file) : IsBoundary(file, off) \/ ~Valid(file, off, off)
=============================================================================
