------------------------- MODULE SemanticsEffects -------------------------
(***************************************************************************)
(* Self-composition for C09: `value never read` / `no side effect` /       *)
(* `parameter never used` claims.  A record is an abstract definition (as  *)
(* in Semantics.tla, here executed on concrete field elements) plus the    *)
(* flagged SITES (assignment statements, or parameters) taken from the     *)
(* tool's findings CS0006 / CS0007 / CS0008.                               *)
(*                                                                         *)
(* For one flagged site at a time TLC runs the definition twice in lock    *)
(* step from the same inputs (every valuation of parameters and input      *)
(* signals): run 1 as written, run 2 with the value written at the site    *)
(* replaced by ANY other value, each time the site executes (for a         *)
(* parameter: any other initial value).  The claim is refuted when an      *)
(* effect differs:                                                         *)
(*   a value assigned to an input or output signal (or component input),   *)
(*   either side of a constraint that mentions such a signal, an assertion *)
(*   outcome, the return value, an array dimension, a branch decision.     *)
(* Only flagged sites are judged, only the listed observables compared.    *)
(* Local arrays hold one field element per element; an element is selected  *)
(* by the value of its index expression in the run at hand.                 *)
(***************************************************************************)
EXTENDS Field, FiniteSets, IOUtils

CONSTANTS P

Rec == ndJsonDeserialize(IOEnv.TRACE)

VARIABLES l, site,  \* record index, index of the flagged site under test (in Prog.sites)
          stack, e1, e2, started, bad
vars == <<l, site, stack, e1, e2, started, bad>>
Prog == Rec[l]
Site == Prog.sites[site]

RECURSIVE Eval(_, _)
Eval(e, en) ==
  LET nd == Prog.exprs[e] IN
  CASE nd.k = "num" -> nd.v % P
    [] nd.k \in {"var", "sigv"} -> IF nd.x \in DOMAIN en THEN en[nd.x] ELSE 0
    [] nd.k = "opaque" -> Err
    [] nd.k = "idx" ->          \* element of a local array (a sequence of field elements)
         LET ix == Eval(nd.l, en) IN
         IF nd.x \notin DOMAIN en \/ ix = Err THEN Err
         ELSE IF ix + 1 \notin DOMAIN en[nd.x] THEN Err ELSE en[nd.x][ix + 1]
    [] nd.k = "bin" -> LET a == Eval(nd.l, en)
                           b == Eval(nd.r, en) IN
                       IF a = Err \/ b = Err THEN Err ELSE Bin(nd.op, a, b, P)
    [] nd.k = "un" -> LET a == Eval(nd.r, en) IN IF a = Err THEN Err ELSE Un(nd.op, a, P)
    [] nd.k = "tern" -> LET c == Eval(nd.c, en) IN
                        IF c = Err THEN Err ELSE IF c # 0 THEN Eval(nd.l, en) ELSE Eval(nd.r, en)

Push(st, kids) == st \o [j \in 1..Len(kids) |-> kids[Len(kids) + 1 - j]]
Names(q) == {q[j] : j \in 1..Len(q)}

Init == /\ l = 1 /\ site = 1 /\ stack = <<>> /\ e1 = <<>> /\ e2 = <<>> /\ started = FALSE /\ bad = ""
\* choose the inputs; a flagged parameter gets any other value in run 2
Start == /\ l <= Len(Rec) /\ ~started /\ Prog.kind # "skip" /\ site <= Len(Prog.sites)
         /\ \E iv \in [Names(Prog.params) \cup Names(Prog.inputs) -> 0..(P - 1)] :
              /\ e1' = iv
              /\ IF Site.k = "param"
                 THEN \E v \in 0..(P - 1) : e2' = [iv EXCEPT ![Site.x] = v]
                 ELSE e2' = iv
         /\ stack' = <<Prog.root>> /\ started' = TRUE
         /\ UNCHANGED <<l, site, bad>>
Differs(e) == Eval(e, e1) # Eval(e, e2)
Step == /\ l <= Len(Rec) /\ started /\ bad = "" /\ stack # <<>>
        /\ LET n == stack[Len(stack)]
               rest == SubSeq(stack, 1, Len(stack) - 1)
               st == Prog.stmts[n]
               flagged == Site.k = "stmt" /\ Site.sid = n IN
           CASE st.k = "blk" -> stack' = Push(rest, st.kids) /\ UNCHANGED <<e1, e2, bad>>
             [] st.k = "decl0" -> /\ stack' = rest /\ e1' = (st.x :> 0) @@ e1 /\ e2' = (st.x :> 0) @@ e2 /\ UNCHANGED bad
             [] st.k = "decla" ->        \* var a[n]: all elements zero
                  /\ stack' = rest /\ UNCHANGED bad
                  /\ e1' = (st.x :> [j \in 1..st.t |-> 0]) @@ e1 /\ e2' = (st.x :> [j \in 1..st.t |-> 0]) @@ e2
             [] st.k = "seti" ->         \* a[i] = e: in each run the element its own index value selects; an index out of range ends the run
                  LET i1 == Eval(st.e2, e1)
                      i2 == Eval(st.e2, e2) IN
                  IF i1 = Err \/ i2 = Err \/ st.x \notin DOMAIN e1 \/ i1 + 1 \notin DOMAIN e1[st.x] \/ i2 + 1 \notin DOMAIN e2[st.x]
                  THEN stack' = <<>> /\ UNCHANGED <<e1, e2, bad>>
                  ELSE /\ stack' = rest /\ UNCHANGED bad
                       /\ e1' = (st.x :> [e1[st.x] EXCEPT ![i1 + 1] = Eval(st.e, e1)]) @@ e1
                       /\ IF flagged THEN \E v \in 0..(P - 1) : e2' = (st.x :> [e2[st.x] EXCEPT ![i2 + 1] = v]) @@ e2
                          ELSE e2' = (st.x :> [e2[st.x] EXCEPT ![i2 + 1] = Eval(st.e, e2)]) @@ e2
             [] st.k = "set" ->
                  /\ stack' = rest /\ UNCHANGED bad
                  /\ e1' = (st.x :> Eval(st.e, e1)) @@ e1
                  /\ IF flagged THEN \E v \in 0..(P - 1) : e2' = (st.x :> v) @@ e2
                     ELSE e2' = (st.x :> Eval(st.e, e2)) @@ e2
             [] st.k = "sigset" ->      \* s <-- e / s <== e : st.exported says whether s is an input / output / component input
                  /\ stack' = rest
                  /\ e1' = (st.x :> Eval(st.e, e1)) @@ e1
                  /\ IF flagged THEN \E v \in 0..(P - 1) : e2' = (st.x :> v) @@ e2 /\
                                        bad' = IF st.exported /\ v # Eval(st.e, e1) THEN "the value assigned to an input or output signal differs" ELSE ""
                     ELSE /\ e2' = (st.x :> Eval(st.e, e2)) @@ e2
                          /\ bad' = IF st.exported /\ Differs(st.e) THEN "the value assigned to an input or output signal differs"
                                    ELSE IF st.constrains /\ st.mentions_exported /\ Differs(st.e) THEN "a constraint mentioning an input or output signal differs"
                                    ELSE ""
             [] st.k = "ceq" ->
                  /\ stack' = rest /\ UNCHANGED <<e1, e2>>
                  /\ bad' = IF st.mentions_exported /\ (Differs(st.e) \/ Differs(st.e2)) THEN "a constraint mentioning an input or output signal differs" ELSE ""
             [] st.k = "assert" ->
                  /\ stack' = rest /\ UNCHANGED <<e1, e2>>
                  /\ bad' = IF (Eval(st.e, e1) # 0) # (Eval(st.e, e2) # 0) THEN "an assertion outcome differs" ELSE ""
             [] st.k = "dim" ->
                  /\ stack' = rest /\ UNCHANGED <<e1, e2>>
                  /\ bad' = IF Differs(st.e) THEN "an array dimension differs" ELSE ""
             [] st.k = "ret" ->
                  /\ stack' = <<>> /\ UNCHANGED <<e1, e2>>
                  /\ bad' = IF Differs(st.e) THEN "the return value differs" ELSE ""
             [] st.k \in {"if", "wh"} ->
                  LET c1 == Eval(st.e, e1)
                      c2 == Eval(st.e, e2) IN
                  IF c1 = Err \/ c2 = Err THEN stack' = <<>> /\ UNCHANGED <<e1, e2, bad>>
                  ELSE IF (c1 # 0) # (c2 # 0) THEN bad' = "a branch decision differs" /\ UNCHANGED <<stack, e1, e2>>
                  ELSE /\ UNCHANGED <<e1, e2, bad>>
                       /\ stack' = IF c1 # 0 THEN (IF st.k = "wh" THEN Push(rest \o <<n>>, <<st.t>>) ELSE Push(rest, <<st.t>>))
                                   ELSE (IF st.k = "if" /\ st.f # 0 THEN Push(rest, <<st.f>>) ELSE rest)
             [] OTHER -> stack' = rest /\ UNCHANGED <<e1, e2, bad>>
        /\ UNCHANGED <<l, site, started>>
\* next flagged site of the same record, or next record
NextSite == /\ l <= Len(Rec) /\ ~started
            /\ IF Prog.kind # "skip" /\ site < Len(Prog.sites) THEN site' = site + 1 /\ l' = l ELSE site' = 1 /\ l' = l + 1
            /\ UNCHANGED <<stack, e1, e2, started, bad>>
Next == Start \/ Step \/ NextSite
Spec == Init /\ [][Next]_vars

ClaimsHold == (bad # "") => PrintT(<<"REJECT", ToJson([idx |-> l, why |-> bad, nid |-> site])>>)
Consumed == (l = Len(Rec) + 1) => PrintT(<<"CONSUMED", ToJson([n |-> Len(Rec)])>>)
=============================================================================
