----------------------------- MODULE ExprGen -----------------------------
(***************************************************************************)
(* Every expression of depth <= 2 over the atoms {signal a, signal b,      *)
(* parameter n, local v, literals} and all 20 infix operators, 3 prefix    *)
(* operators and the ternary (C06, C07, C20): a derivation machine whose   *)
(* sentences are expressions in prefix notation.  With Deep = FALSE the    *)
(* operands of the root are atoms (depth 1); with Deep = TRUE one level    *)
(* more.  The harness places each expression in the data-flow contexts     *)
(* `direct`, `through a local`, `accumulated in a loop`, `merged at a      *)
(* join`.                                                                  *)
(***************************************************************************)
EXTENDS Integers, Sequences, FiniteSets, TLC, Json

CONSTANTS Deep, Atoms, BinOps, UnOps

VARIABLES form
NT == {"<E>", "<E1>", "<A>"}
Bin(sub) == {<<"bin", op, sub, sub>> : op \in BinOps}
Un(sub) == {<<"un", op, sub>> : op \in UnOps}
AtomP == {<<"atom", a>> : a \in Atoms}
P == [nt \in NT |->
  CASE nt = "<A>" -> AtomP
    [] nt = "<E1>" -> AtomP \cup Bin("<A>") \cup Un("<A>")
    [] nt = "<E>" -> IF Deep THEN Bin("<E1>") \cup Un("<E1>") \cup {<<"tern", "<E1>", "<A>", "<A>">>}
                     ELSE Bin("<A>") \cup Un("<A>") \cup {<<"tern", "<A>", "<A>", "<A>">>}]
FirstNT(f) == LET idx == {k \in 1..Len(f) : f[k] \in NT} IN IF idx = {} THEN 0 ELSE CHOOSE k \in idx : \A j \in idx : k <= j
Complete(f) == FirstNT(f) = 0
Init == form = <<"<E>">>
Next == /\ ~Complete(form)
        /\ LET k == FirstNT(form) IN
           \E rhs \in P[form[k]] : form' = SubSeq(form, 1, k - 1) \o rhs \o SubSeq(form, k + 1, Len(form))
Spec == Init /\ [][Next]_form
Emit == Complete(form) => PrintT(<<"CASE", ToJson([toks |-> form])>>)
=============================================================================
