------------------------------ MODULE Lifting ------------------------------
(***************************************************************************)
(* Impl model of AST -> CFG lifting (program_structure/src/control_flow_   *)
(* graph/lifting.rs: build_basic_blocks / visit_statement / complete_      *)
(* basic_block), written to be bound: one operator per function of the     *)
(* code, the same order of block creation, the same rule for the false     *)
(* branch target (filled in by complete_basic_block only, never by the     *)
(* back edge of a loop).                                                   *)
(*                                                                         *)
(* Input: the flat source tree of CfgTrace.tla (nodes [k, id, kids, t, e,  *)
(* depth]); the parser's view of it is applied on the fly:                 *)
(*   for (init; cond; step) body  =  { init; while (cond) { body; step } } *)
(*   a bare arm is the statement itself (visiting a block of one statement *)
(*   is visiting the statement).                                           *)
(* Output: a graph in the form of CfgTrace's exported graphs, 1-based:     *)
(*   blocks [preds, succs (sorted sequences), depth, stmts [k, tag, t, f]] *)
(* Statements are the tagged ones only (declarations carry no tag).        *)
(*                                                                         *)
(* Used by CfgTrace.tla twice: (L1) for every generated tree TLC checks    *)
(* that the MODEL's graph satisfies the C12 clauses and that the walk of   *)
(* the model's graph meets the source run (C13) -- the design of the       *)
(* algorithm is verified on the same exhaustive scope as the code; (L2')   *)
(* the real graph is compared with the model's block by block: a           *)
(* difference is DRIFT (the code no longer follows this description), not  *)
(* a violation of a property.                                              *)
(***************************************************************************)
EXTENDS Integers, Sequences, FiniteSets, SequencesExt

LOCAL NewBlock(ps, d) == [preds |-> ps, succs |-> {}, depth |-> d, stmts |-> <<>>]
LOCAL Append2(bs, st) == [bs EXCEPT ![Len(bs)].stmts = Append(@, st)]
LOCAL LastIsIf(b) == Len(b.stmts) > 0 /\ b.stmts[Len(b.stmts)].k = "if"

\* complete_basic_block: push block j with predecessors ps; every predecessor gets j as successor; a predecessor ending
\* in a branch whose true target is not j and whose false target is still open gets j as false target
Complete(bs, ps, d) ==
  LET j == Len(bs) + 1
      upd(b) == LET b1 == [b EXCEPT !.succs = @ \cup {j}] IN
                IF LastIsIf(b1) /\ b1.stmts[Len(b1.stmts)].t # j /\ b1.stmts[Len(b1.stmts)].f = 0
                THEN [b1 EXCEPT !.stmts[Len(b1.stmts)].f = j] ELSE b1 IN
  Append([i \in 1..Len(bs) |-> IF i \in ps THEN upd(bs[i]) ELSE bs[i]], NewBlock(ps, d))

\* back edges of a loop: add_successor / add_predecessor only
LOCAL BackEdges(bs, ps, h) == [i \in 1..Len(bs) |->
                                 LET b1 == IF i \in ps THEN [bs[i] EXCEPT !.succs = @ \cup {h}] ELSE bs[i] IN
                                 IF i = h THEN [b1 EXCEPT !.preds = @ \cup ps] ELSE b1]

\* visit_statement: <<blocks, predecessor set of the next block>>
RECURSIVE Visit(_, _, _, _), VisitList(_, _, _, _, _, _), VisitWhile(_, _, _, _, _, _)
\* the statements of a block, from position k on; ps = predecessor set returned by the previous statement
VisitList(tree, kids, k, d, bs, ps) ==
  IF k > Len(kids) THEN <<bs, ps>>
  ELSE LET bs1 == IF ps # {} THEN Complete(bs, ps, d) ELSE bs
           r == Visit(tree, kids[k], d, bs1) IN
       VisitList(tree, kids, k + 1, d, r[1], r[2])
\* while (cond tag) body; `step` = 0 or the tag of a for loop's step statement, appended after the body
VisitWhile(tree, tag, body, step, d, bs) ==
  LET cur == Len(bs)
      b1 == Complete(bs, {cur}, d)                                                   \* loop header = cur + 1
      h == cur + 1
      b2 == Append2(b1, [k |-> "if", tag |-> tag, t |-> cur + 2, f |-> 0])
      b3 == Complete(b2, {h}, d + 1)                                                 \* loop body = cur + 2
      r == Visit(tree, body, d + 1, b3)
      \* for loops: the body block is { body; step }: a new block is opened for the step if the body ended in control flow
      r2 == IF step = 0 THEN r
            ELSE LET b4 == IF r[2] # {} THEN Complete(r[1], r[2], d + 1) ELSE r[1] IN
                 <<Append2(b4, [k |-> "s", tag |-> step, t |-> 0, f |-> 0]), {}>>
      ps == IF r2[2] = {} THEN {Len(r2[1])} ELSE r2[2] IN
  <<BackEdges(r2[1], ps, h), {h}>>
Visit(tree, n, d, bs) ==
  LET nd == tree[n] IN
  CASE nd.k \in {"s", "n"} -> <<Append2(bs, [k |-> "s", tag |-> nd.id, t |-> 0, f |-> 0]), {}>>
    [] nd.k = "d" -> <<bs, {}>>                                \* the declaration is appended to the current block; it carries no tag
    [] nd.k = "r" -> <<Append2(bs, [k |-> "ret", tag |-> nd.id, t |-> 0, f |-> 0]), {}>>
    [] nd.k = "blk" -> VisitList(tree, nd.kids, 1, d, bs, {})
    [] nd.k = "wh" -> VisitWhile(tree, nd.id, nd.t, 0, d, bs)
    [] nd.k = "for" -> VisitWhile(tree, nd.id + 1, nd.t, nd.id + 2, d, Append2(bs, [k |-> "s", tag |-> nd.id, t |-> 0, f |-> 0]))
    [] nd.k \in {"if", "ife"} ->
         LET cur == Len(bs)
             b1 == Append2(bs, [k |-> "if", tag |-> nd.id, t |-> cur + 1, f |-> 0])
             b2 == Complete(b1, {cur}, d)
             r1 == Visit(tree, nd.t, d, b2)
             ps1 == IF r1[2] = {} THEN {Len(r1[1])} ELSE r1[2] IN
         IF nd.k = "if" THEN <<r1[1], ps1 \cup {cur}>>
         ELSE LET b3 == Complete(r1[1], {cur}, d)
                  r2 == Visit(tree, nd.e, d, b3)
                  ps2 == IF r2[2] = {} THEN {Len(r2[1])} ELSE r2[2] IN
              <<r2[1], ps1 \cup ps2>>

\* build_basic_blocks: block 1 is the entry (no predecessor, depth 0), the body is node 1
Lift(tree) ==
  LET bs == Visit(tree, 1, 0, <<NewBlock({}, 0)>>)[1]
      sorted(S) == SetToSortSeq(S, LAMBDA a, b : a < b) IN
  [blocks |-> [i \in 1..Len(bs) |-> [preds |-> sorted(bs[i].preds), succs |-> sorted(bs[i].succs), depth |-> bs[i].depth,
                                     stmts |-> [j \in 1..Len(bs[i].stmts) |->
                                                  [k |-> bs[i].stmts[j].k, tag |-> bs[i].stmts[j].tag, t |-> bs[i].stmts[j].t,
                                                   f |-> bs[i].stmts[j].f, phi |-> FALSE]]]]]
=============================================================================
