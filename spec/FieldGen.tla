---------------------------- MODULE FieldGen ----------------------------
(***************************************************************************)
(* C16 case generation: every operand pair of every operation over every   *)
(* prime of the constant set, with Ref's result (Field.tla); and the       *)
(* boundary laws, each checked here for every small prime and then         *)
(* instantiated by the harness for the three real primes.                  *)
(***************************************************************************)
EXTENDS Field, FiniteSets

CONSTANTS Primes

VARIABLES p, a, b
vars == <<p, a, b>>

Init == p \in Primes /\ a \in 0..(p - 1) /\ b = -1
Next == b = -1 /\ b' \in 0..(p - 1) /\ UNCHANGED <<p, a>>
Spec == Init /\ [][Next]_vars

Emit == (b >= 0) =>
  PrintT(<<"CASE", ToJson([p |-> p, a |-> a, b |-> b,
     bin |-> [i \in 1..Len(BinOps) |-> Bin(BinOps[i], a, b, p)],
     un |-> IF b = 0 THEN [i \in 1..Len(UnOps) |-> Un(UnOps[i], a, p)] ELSE <<>>])>>)

(* ---------- sanity of Ref: algebraic laws every field must satisfy ---------- *)
RefLaws == (b >= 0) =>
  /\ \A op \in {BinOps[i] : i \in 1..Len(BinOps)} :
        LET r == Bin(op, a, b, p) IN r = Err \/ (0 <= r /\ r < p)
  /\ (b # 0) => Bin("mul", Bin("div", a, b, p), b, p) = a
  /\ Bin("add", Bin("sub", a, b, p), b, p) = a
  /\ (b # 0) => Bin("add", Bin("mul", Bin("idiv", a, b, p), b, p), Bin("mod_op", a, b, p), p) = a
  /\ Bin("lesser", a, b, p) + Bin("greater_eq", a, b, p) = 1
  /\ Bin("greater", a, b, p) + Bin("lesser_eq", a, b, p) = 1
  /\ Un("complement_256", Un("complement_256", a, p), p) = a
  /\ Bin("add", a, Un("prefix_sub", a, p), p) = 0
  /\ Bin("lesser", a, b, p) = Bin("greater", b, a, p)
  /\ Bin("eq", a, b, p) + Bin("not_eq", a, b, p) = 1
  /\ (b # 0) => (0 <= Bin("mod_op", a, b, p) /\ Bin("mod_op", a, b, p) < b)
  /\ Bin("bit_xor", a, b, p) = Bin("sub", Bin("bit_or", a, b, p), Bin("bit_and", a, b, p), p)

(* ------------------------- boundary laws ------------------------------ *)
\* Terms are evaluated for a concrete p: here for every small prime, in the harness for the real
\* primes.  Term := [t |-> "n", v |-> k] | [t |-> name]  with names p1 = p-1, h = (p-1)/2, h1 = h+1,
\* b = bits(p), b1 = bits(p)-1, pw = 2^(bits-1), c0 = (2^256 - 1) mod p, c1 = 2^256 mod p, err.
Nm(k) == [t |-> "n", v |-> k]
T(name) == [t |-> name, v |-> 0]
Ev(x, q) == CASE x.t = "n" -> x.v
              [] x.t = "p1" -> q - 1
              [] x.t = "h" -> (q - 1) \div 2
              [] x.t = "h1" -> ((q - 1) \div 2) + 1
              [] x.t = "b" -> Bits(q)
              [] x.t = "b1" -> Bits(q) - 1
              [] x.t = "pw" -> Pow2(Bits(q) - 1)
              [] x.t = "c0" -> (Pow2Mod(256, q) + q - 1) % q
              [] x.t = "c1" -> Pow2Mod(256, q)
              [] x.t = "err" -> Err
L(op, x, y, r, minp) == [op |-> op, a |-> x, b |-> y, r |-> r, minp |-> minp]
Laws == <<
  L("add", T("p1"), Nm(1), Nm(0), 3), L("add", T("h"), T("h1"), Nm(0), 3), L("sub", Nm(0), Nm(1), T("p1"), 3),
  L("sub", T("h"), T("h1"), T("p1"), 3), L("mul", T("p1"), T("p1"), Nm(1), 3), L("mul", T("h1"), Nm(2), Nm(1), 3),
  L("div", T("p1"), T("p1"), Nm(1), 3), L("div", T("h"), T("h"), Nm(1), 3), L("div", Nm(1), Nm(2), T("h1"), 3),
  L("div", Nm(1), Nm(0), T("err"), 3), L("idiv", Nm(1), Nm(0), T("err"), 3), L("mod_op", Nm(1), Nm(0), T("err"), 3),
  L("div", Nm(0), Nm(0), T("err"), 3), L("idiv", T("p1"), Nm(0), T("err"), 3), L("mod_op", T("p1"), Nm(0), T("err"), 3),
  L("idiv", T("p1"), Nm(2), T("h"), 3), L("mod_op", T("p1"), Nm(2), Nm(0), 3), L("mod_op", T("h"), T("h1"), T("h"), 3),
  L("idiv", T("h"), T("h1"), Nm(0), 3), L("idiv", T("p1"), T("p1"), Nm(1), 3),
  L("pow", T("p1"), Nm(2), Nm(1), 3), L("pow", Nm(2), T("p1"), Nm(1), 3), L("pow", Nm(0), Nm(0), Nm(1), 3),
  L("pow", Nm(2), T("b1"), T("pw"), 3),
  L("lesser", T("h"), T("h1"), Nm(0), 3), L("greater", T("h"), T("h1"), Nm(1), 3), L("lesser", T("h1"), Nm(0), Nm(1), 3),
  L("lesser", T("p1"), Nm(0), Nm(1), 3), L("lesser_eq", T("h"), T("h"), Nm(1), 3), L("greater_eq", Nm(0), T("p1"), Nm(1), 3),
  L("greater", T("h1"), T("h"), Nm(0), 3), L("lesser_eq", T("h1"), T("p1"), Nm(1), 3), L("greater_eq", T("h"), Nm(0), Nm(1), 3),
  L("eq", T("p1"), T("p1"), Nm(1), 3), L("not_eq", T("h"), T("h1"), Nm(1), 3),
  L("shift_r", Nm(1), T("p1"), Nm(2), 5), L("shift_l", Nm(2), T("p1"), Nm(1), 3), L("shift_r", T("p1"), Nm(1), T("h"), 3),
  L("shift_l", Nm(1), T("b1"), T("pw"), 5), L("shift_r", T("pw"), T("b1"), Nm(1), 5), L("shift_l", Nm(1), T("b"), Nm(0), 11),
  L("shift_r", T("p1"), T("b"), Nm(0), 11), L("shift_l", T("p1"), T("h"), Nm(0), 11), L("shift_r", T("p1"), T("h"), Nm(0), 11),
  L("shift_l", Nm(0), Nm(0), Nm(0), 3), L("shift_r", T("h"), Nm(0), T("h"), 3), L("shift_l", Nm(1), T("h1"), Nm(0), 11),
  L("bit_and", T("p1"), Nm(1), Nm(0), 3), L("bit_or", T("p1"), Nm(1), Nm(0), 3), L("bit_xor", T("p1"), T("p1"), Nm(0), 3),
  L("bit_and", T("h"), T("h"), T("h"), 3), L("bit_xor", T("p1"), Nm(1), Nm(0), 3), L("bit_or", Nm(0), T("h1"), T("h1"), 3),
  L("bool_or", Nm(0), T("p1"), Nm(1), 3), L("bool_and", T("h1"), Nm(0), Nm(0), 3), L("bool_and", T("p1"), T("h1"), Nm(1), 3),
  L("prefix_sub", Nm(0), Nm(0), Nm(0), 3), L("prefix_sub", Nm(1), Nm(0), T("p1"), 3), L("prefix_sub", T("h"), Nm(0), T("h1"), 3),
  L("complement_256", Nm(0), Nm(0), T("c0"), 3), L("complement_256", T("p1"), Nm(0), T("c1"), 3),
  L("not", Nm(0), Nm(0), Nm(1), 3), L("not", T("p1"), Nm(0), Nm(0), 3), L("as_bool", T("h1"), Nm(0), Nm(1), 3)
>>
IsBin(op) == \E i \in 1..Len(BinOps) : BinOps[i] = op
LawHolds(law, q) == (q >= law.minp) =>
   (IF IsBin(law.op) THEN Bin(law.op, Ev(law.a, q), Ev(law.b, q), q) ELSE Un(law.op, Ev(law.a, q), q)) = Ev(law.r, q)
\* every shift count between bits(p) and p/2 clears the value (the harness instantiates huge counts for real primes)
LargeShiftLaw(q) == \A k \in Bits(q)..Half(q) : \A x \in {1, q - 1, Half(q)} :
                       Shl(x, k, q) = 0 /\ Shr(x, k, q) = 0
LawsHold == /\ \A i \in 1..Len(Laws) : LawHolds(Laws[i], p)
            /\ LargeShiftLaw(p)
EmitLaws == (a = 0 /\ b = -1 /\ p = CHOOSE q \in Primes : \A o \in Primes : q <= o) =>
            PrintT(<<"LAWS", ToJson(Laws)>>)
=============================================================================
