"""Grammar-valid programs with unusual but legal (or legally rejectable) meaning: the semantic corner cases in which analysis
passes index, unwrap or fold without a guard. Used by C01 (totality) for every option set; the tool may report whatever it
likes about them, it has to end with a summary and status 0 or 1."""

T_HEAD = ("pragma circom 2.1.4;\nfunction g(a) {\n  return a + 1;\n}\ntemplate A() {\n  signal input x;\n  signal output o;\n  o <== x;\n}\n"
          "template T(n) {\n  signal input in;\n  signal input inv[2];\n  signal output out;\n  signal output outv[2];\n  signal mid;\n  var v = 0;\n  var arr[2];\n")
T_TAIL = "}\ncomponent main = T(2);\n"
F_HEAD = "pragma circom 2.1.4;\nfunction f(n, m) {\n  var v = 0;\n  var arr[2];\n"
F_TAIL = "  return v;\n}\n"

# statements usable in a template and (those without signals) in a function
COMMON = [
    "v = 1 / 0;", "v = 5 % 0;", "v = 5 \\ 0;", "v = n / (n - n);", "v = 1 << 254;", "v = 1 << 255;", "v = 1 >> 300;", "v = 1 << (0 - 1);",
    "v = 0 ** 0;", "v = 2 ** 300;", "v = (0 - 1) ** (0 - 1);", "v = ~0;", "v = !5;", "v = -0;", "v = 0 ? 1 / 0 : 2;", "v = 1 ? 2 : 1 / 0;",
    "v = (1 / 0) ? 1 : 2;", "v = 21888242871839275222246405745257275088548364400416034343698204186575808495617;",
    "v = 21888242871839275222246405745257275088548364400416034343698204186575808495616 + 1;", "v = 10944121435919637611123202872628637544274182200208017171849102093287904247808 << 1;",
    "v = 1 << 10944121435919637611123202872628637544274182200208017171849102093287904247808;",
    "v = 1 >> 10944121435919637611123202872628637544274182200208017171849102093287904247809;",
    "v = 5 < 21888242871839275222246405745257275088548364400416034343698204186575808495616;", "v = (n < m) + (n && m) * (n || !m);",
    "var z[0];", "var z[n - n];", "var z[2][0];", "var z[3] = [1, 2];", "var z[2] = [[1], [2]];", "var z[2] = [1, 2, 3];", "arr[5] = 1;", "arr[0 - 1] = 1;",
    "arr[arr[0]] = arr[arr[1]];", "arr[n] = arr[m];", "v = arr[2];", "v = arr[0][0];", "arr = [1, 2];", "arr = 3;", "v = [1, 2];", "v = [1, 2][0];",
    "var w = w + 1;", "var w; var w;", "var w = 1; { var w = w; }", "var n = n;", "var f = 1;", "var g = g(1);", "v = g();", "v = g(1, 2);", "v = h(1);",
    "v = g(g(g(g(g(g(g(g(1))))))));", "v = f(n, m);", "v = T(1);", "v = A();",
    "while (1) { v += 1; }", "while (0) { v += 1; }", "while (n) { n = n; }", "for (var i = 0; i < 0; i++) { v = i; }", "for (var i = 0; i < 100000000; i++) { }",
    "for (var i = 0; i != 1; i += 2) { v += i; }", "if (1) { } else { }", "if (n) { if (m) { if (v) { v = 1; } } } else { v = 2; }",
    "if (1 / 0) { v = 1; }", "while (1 / 0) { v = 1; }", "assert(1 / 0);", "assert(0);", "assert(n == n);", "log();", 'log("");', 'log("%", v, "{}", 1 / 0);',
    "log(arr);", "log(arr[0], arr[1 / 0]);", "v = v ? v ? v ? 1 : 2 : 3 : 4;", "v += v -= 1;", "v++;", "v--; v**=2; v\\=0; v%=0; v<<=300; v>>=300; v&=~0; v|=0; v^=v;",
    "{ { { { { { v = 1; } } } } } }", "return v; v = 1;", "var (p1, p2) = (1, 2);", "var (p1, p2) = (1, 2, 3);", "(v, v) = (1, 2);", "(arr[0], arr[1]) = (arr[1], arr[0]);",
    "(_, _) = (1, 2);", "_ = 1;", "v = _;",
]
TEMPLATE_ONLY = [
    "out <== in * in * in;", "out <== in / in;", "out <== 1 / in;", "out <== in \\ 2;", "out <== in % 2;", "out <== in ** 2;", "out <== in ** in;", "out <== in << 1;",
    "out <== in ? 1 : 2;", "out <== in == 1;", "out <== out;", "in === in;", "0 === 0;", "1 === 0;", "in <== out;", "in <-- 1;", "out <-- out;", "mid <== mid * mid;",
    "out <== g(in);", "out <-- g(in);", "out <== f(in, in);", "out <== arr[in];", "out <-- arr[in];", "out <== inv[in];", "outv[in] <== 1;", "outv[2] <== 1;", "outv[0 - 1] <== 1;",
    "outv <== inv;", "outv <== [in, in];", "out <== inv;", "outv <== in;", "outv[0] <== in; outv[0] <== in;", "out <== in; out <== in;", "out <-- in; out === in; out === in;",
    "in * in ==> out;", "in --> out;", "in --> outv[0]; in ==> outv[1];", "in * in * in --> out;", "(out, mid) <== (in, in);", "(out, _) <-- (in, in);", "(outv[0], outv[1]) <== (inv[1], inv[0]);",
    "signal s0[0];", "signal s1[n - n];", "signal s2[n][n]; s2[0][0] <== in;", "signal s3 <== in;", "signal s4 <-- in >> 1; s4 * (s4 - 1) === 0;", "signal in;", "signal input in;", "signal output in;",
    "signal out; var out;", "var in = 1;", "component in;", "signal {binary} tg; tg <== in; tg.binary = 1;", "signal input {maxbit} ti; v = ti.maxbit;",
    "component c;", "component c; c.x <== in;", "component c = A(); c.zz <== in;", "component c = A(); c.x <== in; c.x <== in;", "component c = A(); out <== c.o;", "component c = A(1);",
    "component c = T(n);", "component c = T(n - 1); c.in <== in;", "component c = g(1);", "component c = Undefined();", "component c[2]; c[0] = A(); c[0] = A(); c[0].x <== in;",
    "component c[0];", "component c[2]; c[5] = A();", "component c[2]; c[in] = A();", "component c[2]; for (var i = 0; i < 2; i++) { c[i] = A(); c[i].x <== in; }", "component c[n][n]; c[0][0] = A();",
    "component c = A(); c <== in;", "component c = A(); out <== c;", "component c = parallel A(); c.x <== in;", "out <== A()(in);", "out <== A()(A()(A()(in)));", "out <== A()(in, in);", "out <== A()();",
    "out <== A()(x <== in);", "out <== A()(zz <== in);", "outv <== A()(in);", "(out, mid) <== A()(in);", "out <== parallel A()(in);", "A()(in);", "out <== T(1)(in, inv);",
    "if (in) { out <== 1; } else { out <== 2; }", "while (in) { v += 1; }", "for (var i = 0; i < in; i++) { v += 1; }", "var z[in];", "signal sz[in];", "assert(in);", "log(in, inv, out);",
    "v = in; out <== v * v * v;", "v = in * in; out <== v; mid <== v * in;", "out <== (in + 1) * (in + 2) + (in + 3) * (in + 4);", "out <== in * in + in * in + in;",
    "component n2b = Num2Bits(254); n2b.in <== in;", "component n2b = Num2Bits(n); n2b.in <== in;", "component n2b = Num2Bits(); n2b.in <== in;", "component lt = LessThan(300); lt.in[0] <== in; lt.in[1] <== in;",
    "component lt = LessThan(); lt.in[0] <== in;", "out <== LessThan(8)([in, in]);", "out <== Num2Bits(3)(in);", "component b2n = Bits2Num(0); ", "component sg = Sign(); sg.in <== inv;",
]
FULL = {
    "no-main": "pragma circom 2.1.4;\ntemplate T() {\n  signal input a;\n}\n",
    "main-arity": "pragma circom 2.1.4;\ntemplate T(n) {\n  signal input a;\n}\ncomponent main = T();\n",
    "main-function": "pragma circom 2.1.4;\nfunction f(n) {\n  return n;\n}\ncomponent main = f(1);\n",
    "main-undefined": "pragma circom 2.1.4;\ncomponent main = Nope(1);\n",
    "main-public-unknown": "pragma circom 2.1.4;\ntemplate T() {\n  signal input a;\n  signal output b;\n  b <== a;\n}\ncomponent main {public [zz, a, a]} = T();\n",
    "main-parallel": "pragma circom 2.1.4;\ntemplate T() {\n  signal input a;\n  signal output b;\n  b <== a;\n}\ncomponent main = parallel T();\n",
    "only-main": "component main = T();\n",
    "recursion": "pragma circom 2.1.4;\nfunction f(n) {\n  return f(n - 1) + f(n);\n}\nfunction g(n) {\n  return h(n);\n}\nfunction h(n) {\n  return g(n);\n}\ntemplate T(n) {\n  signal input a;\n  signal output b;\n  component c = T(n);\n  c.a <== a;\n  b <== c.b + f(n) + g(n);\n}\ncomponent main = T(f(3));\n",
    "no-return": "pragma circom 2.1.4;\nfunction f(n) {\n  var x = n;\n}\nfunction g(n) {\n  if (n) {\n    return 1;\n  }\n}\ntemplate T() {\n  signal output b;\n  b <== f(1) + g(0);\n}\ncomponent main = T();\n",
    "return-in-template": "pragma circom 2.1.4;\ntemplate T() {\n  signal output b;\n  b <== 1;\n  return 1;\n}\ncomponent main = T();\n",
    "signals-in-function": "pragma circom 2.1.4;\nfunction f(n) {\n  signal s;\n  s <== n;\n  component c = T();\n  n === n;\n  return s;\n}\n",
    "same-names": "pragma circom 2.1.4;\nfunction T(T) {\n  return T;\n}\ntemplate f(f) {\n  signal input f;\n  signal output T;\n  T <== f;\n}\ntemplate main() {\n  signal input main;\n}\ncomponent main = main();\n",
    "param-named-like-signal": "pragma circom 2.1.4;\ntemplate T(a, b, out) {\n  signal input a;\n  signal output out;\n  var b = a;\n  out <== b;\n}\ncomponent main = T(1, 2, 3);\n",
    "empty-bodies": "pragma circom 2.1.4;\nfunction f() {\n}\ntemplate T() {\n}\ntemplate custom C() {\n}\ncomponent main = T();\n",
    "custom-with-constraints": "pragma circom 2.1.4;\npragma custom_templates;\ntemplate custom C() {\n  signal input a;\n  signal output b;\n  b <== a * a;\n  a === b;\n  component c = C();\n}\ntemplate T() {\n  signal input a;\n  signal output b;\n  component c = C();\n  c.a <== a;\n  b <== c.b;\n}\ncomponent main = T();\n",
    "many-params": "pragma circom 2.1.4;\ntemplate T(" + ", ".join("p%d" % i for i in range(40)) + ") {\n  signal output b;\n  b <== " + " + ".join("p%d" % i for i in range(40)) + ";\n}\ncomponent main = T(" + ", ".join("1" for i in range(40)) + ");\n",
    "many-branches": "pragma circom 2.1.4;\nfunction f(n) {\n  var v = 0;\n" + "".join("  if (n == %d) { v += %d; }\n" % (i, i) for i in range(60)) + "  return v;\n}\n",
    "many-signals": "pragma circom 2.1.4;\ntemplate T() {\n  signal input a;\n" + "".join("  signal s%d;\n  s%d <-- a + %d;\n" % (i, i, i) for i in range(120)) + "}\ncomponent main = T();\n",
    "deep-component-chain": "pragma circom 2.1.4;\ntemplate A() {\n  signal input x;\n  signal output o;\n  o <== x;\n}\ntemplate T() {\n  signal input a;\n  signal output b;\n  component c[60];\n"
                            + "".join("  c[%d] = A();\n  c[%d].x <== %s;\n" % (i, i, "a" if i == 0 else "c[%d].o" % (i - 1)) for i in range(60)) + "  b <== c[59].o;\n}\ncomponent main = T();\n",
    "include-self": "pragma circom 2.1.4;\ninclude \"in.circom\";\ntemplate T() {\n  signal input a;\n}\ncomponent main = T();\n",
    "pragma-twice": "pragma circom 2.1.4;\npragma circom 2.0.0;\npragma custom_templates;\npragma custom_templates;\ntemplate T() {\n}\n",
    "unicode-identifiers": "pragma circom 2.1.4;\ntemplate T() {\n  signal input $a;\n  signal output _b$;\n  _b$ <== $a;\n}\ncomponent main = T();\n",
}


def programs():
    out = []
    for i, st in enumerate(COMMON):
        out.append(("edge:common-template:%d" % i, T_HEAD + "  " + st + "\n  out <== in;\n" + T_TAIL))
        out.append(("edge:common-function:%d" % i, F_HEAD + "  " + st + "\n" + F_TAIL))
        # the same statement inside a loop and a branch
        out.append(("edge:common-nested:%d" % i, F_HEAD + "  for (var q = 0; q < 2; q++) {\n    if (q == n) {\n      " + st + "\n    }\n  }\n" + F_TAIL))
    for i, st in enumerate(TEMPLATE_ONLY):
        out.append(("edge:template:%d" % i, T_HEAD + "  " + st + "\n" + T_TAIL))
        out.append(("edge:template-nested:%d" % i, T_HEAD + "  for (var q = 0; q < 2; q++) {\n    if (q == n) {\n      " + st + "\n    }\n  }\n" + T_TAIL))
        out.append(("edge:in-function:%d" % i, F_HEAD + "  " + st + "\n" + F_TAIL))
    for k, text in FULL.items():
        out.append(("edge:full:" + k, text))
    return out
