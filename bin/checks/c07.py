"""C07 — degree claims are sound. See bin/sem.py (driver), spec/SemGen.tla (skeletons), spec/Semantics.tla (reference executor)."""
import json
import sem


def run(tier):
    return sem.run_check("C07", tier, ("deg",), budgets=False)


def replay(path):
    doc = json.load(open(path))["case"]
    print(doc.get("source"))
    print({k: doc[k] for k in doc if k != "source"})
    return 0
