"""C06 — constant propagation is sound. See bin/sem.py (driver), spec/SemGen.tla (skeletons), spec/Semantics.tla (reference executor)."""
import json
import sem


def run(tier):
    return sem.run_check("C06", tier, ("val",), budgets=False)


def replay(path):
    doc = json.load(open(path))["case"]
    print(doc.get("source"))
    print({k: doc[k] for k in doc if k != "source"})
    return 0
