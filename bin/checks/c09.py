"""C09 — `value never read` / `no side effect` claims are true. See bin/sem.py (run_effects), spec/SemanticsEffects.tla."""
import json
import sem


def run(tier):
    return sem.run_effects(tier)


def replay(path):
    doc = json.load(open(path))["case"]
    print(doc.get("source"))
    print({k: doc[k] for k in doc if k != "source"})
    return 0
