"""C01 — totality: the run ends by itself, summary last, status 0 or 1. Grammar.tla / PipelineTrace.tla.

Inputs (each run through the real binary under a 60 s / 4 GiB cap, options rotated over the 36
combinations of curve x level x verbose x sarif):
 A  every leftmost derivation of Grammar.tla within the step bound (TLC-enumerated token-class
    sentences), rendered with literals / operators / strings drawn from a stress set chosen from the
    unwrap/expect/assert sites of the anchored files; plus deep random derivations from TLC's
    simulation mode;
 B  the hand-written stress corpus (corpus/stress) and the base corpus;
 C  every byte string up to length 3 (4) over a 12-symbol hostile alphabet (TLC-enumerated);
 D  seeded mutations (token delete / duplicate / swap, byte flips, splices) of the corpora.
Each run becomes a record validated by PipelineTrace.tla (Totality clauses).
Inputs are kept <= 4 KiB (the reading of `modest size`).
"""
import os, re, json, random, itertools
import vlib, cli, proj
from vlib import Verdict, run_tlc, vh, read_ndjson, write_ndjson, sample
from checks.c05 import TOKEN
from checks.c02 import to_record, validate

P_BN = 21888242871839275222246405745257275088548364400416034343698204186575808495617
NUMS = ["0", "1", "2", "3", "254", "253", "255", "256", "64", str(P_BN), str(P_BN - 1), str(P_BN + 1), str(P_BN // 2), str(P_BN // 2 + 1),
        "0x10", "0x0", "0xFFFFFFFFFFFFFFFFFFFFFFFFFFFFFFFFFFFFFFFFFFFFFFFFFFFFFFFFFFFFFFFFFF", "9" * 78, "9" * 400, "100000000000",
        "18446744073709551616", "18446744073709551615", "4294967296", "00", "1e3"]
BOPS = ["*", "/", "+", "-", "**", "\\", "%", "<<", ">>", "<=", ">=", "<", ">", "==", "!=", "||", "&&", "|", "&", "^"]
UOPS = ["-", "!", "~"]
OPASSIGN = ["+=", "-=", "*=", "**=", "/=", "\\=", "%=", "<<=", ">>=", "&=", "|=", "^="]
STRS = ['"s"', '""', '"' + "a" * 228 + "é" + "b" * 4 + '"', '"' + "a" * 229 + "é" + '"', '"' + "é" * 120 + '"', '"// not a comment"',
        '"/* x"', '"%d {} \\n"', '"' + "x" * 700 + '"']
IDS = ["a", "b", "c", "x", "i", "n", "T", "f", "in", "out", "main", "s_0", "a_1"]
# names the analysis passes key on (Circomlib), with any number of arguments
CALLEES = ["Num2Bits", "Bits2Num", "LessThan", "Num2Bits_strict", "Sign", "AliasCheck", "Poseidon", "f", "T", "n", "IsZero", "main"]
CURVES = ["BN254", "BLS12_381", "GOLDILOCKS"]
LEVELS = ["info", "warning", "error"]
OPTS = [{"curve": c, "level": l, "verbose": v, "sarif": s} for c in CURVES for l in LEVELS for v in (False, True) for s in (False, True)]


def render_tokens(toks, k):
    rnd = random.Random(k)
    out = []
    prev_bop = None
    for t in toks:
        if t == "ID":
            out.append(IDS[rnd.randrange(len(IDS) if rnd.random() < 0.3 else 6)])
        elif t == "CALLEE":
            out.append(CALLEES[rnd.randrange(len(CALLEES))])
        elif t == "NUM":
            if prev_bop in ("/", "\\", "%") and rnd.random() < 0.5:
                out.append("0")
            elif prev_bop in ("<<", ">>", "**") and rnd.random() < 0.5:
                out.append(rnd.choice(["100000000000", str(P_BN - 1), str(P_BN // 2), "18446744073709551616", "254", "255"]))
            else:
                out.append(NUMS[rnd.randrange(len(NUMS))] if rnd.random() < 0.6 else str(rnd.randrange(5)))
        elif t == "BOP":
            out.append(BOPS[rnd.randrange(len(BOPS))])
        elif t == "UOP":
            out.append(UOPS[rnd.randrange(3)])
        elif t == "INCDEC":
            out.append(rnd.choice(["++", "--"]))
        elif t == "OPASSIGN":
            out.append(rnd.choice(OPASSIGN))
        elif t == "STR":
            out.append(rnd.choice(STRS))
        else:
            out.append(t)
        prev_bop = out[-1] if t == "BOP" else (prev_bop if t in ("(", "UOP") else None)
    text = " ".join(out)
    head = rnd.choice(["pragma circom 2.0.0;\n", "pragma circom 2.1.4;\n", "", "pragma circom 2.0.0;\npragma custom_templates;\n"])
    tail = ""
    if rnd.random() < 0.15 and len(toks) > 1 and toks[0] == "template":
        tail = "\ncomponent main = %s(%s);\n" % (out[1] if out[1] != "custom" else out[2], rnd.choice(["", "1", "1, 2"]))
    return head + text + tail


HOSTILE = {"/": b"/", "*": b"*", "n": b"\n", "a": b"a", "e": "é".encode(), "q": b'"', "b": b"{", "p": b"(", "z": b"0", "x": b"x",
           "F": b"\xff", "N": b"\x00"}


def mutate(text, rnd):
    b = bytearray(text.encode())
    kind = rnd.randrange(6)
    toks = [(m.start(), m.end()) for m in TOKEN.finditer(text) if not m.group(0).isspace()]
    if kind == 0 and toks:
        s, e = rnd.choice(toks)
        return (text[:s] + text[e:]).encode()
    if kind == 1 and toks:
        s, e = rnd.choice(toks)
        return (text[:e] + " " + text[s:e] + text[e:]).encode()
    if kind == 2 and len(toks) > 1:
        i = rnd.randrange(len(toks) - 1)
        (s, e), (s2, e2) = toks[i], toks[i + 1]
        return (text[:s] + text[s2:e2] + text[e:s2] + text[s:e] + text[e2:]).encode()
    if kind == 3 and b:
        for _ in range(rnd.randint(1, 3)):
            b[rnd.randrange(len(b))] = rnd.choice([0x00, 0xFF, 0x22, 0x2F, 0x2A, 0x7B, 0x7D, 0x28, 0x29, 0x3B, 0xC3, 0x0A, rnd.randrange(256)])
        return bytes(b)
    if kind == 4 and toks:
        s, e = rnd.choice(toks)
        return (text[:s] + rnd.choice(NUMS + STRS + BOPS + ["(", ")", "{", "}", "[", "]", ";", ",", "_", "=", "<==", "-->", "component", "signal"]) + text[e:]).encode()
    cut = rnd.randrange(len(text) + 1)
    return text[:cut].encode()


def run(tier):
    v = Verdict("C01", tier, "exploration")
    wd = os.path.join(vlib.BUILD, "work", "c01")
    os.makedirs(wd, exist_ok=True)
    vlib.build_harness()
    rnd = random.Random(vlib.seed())
    inputs = []   # (origin, bytes)
    # ---- A: grammar derivations
    c = os.path.join(wd, "g.cfg")
    steps = 8 if tier == "quick" else 10
    open(c, "w").write('SPECIFICATION Spec\nCONSTANTS\n  MaxSteps = %d\n  MaxLen = 40\n  Start = "<Def>"\nINVARIANT Emit\nCHECK_DEADLOCK FALSE\n' % steps)
    gen = run_tlc("Grammar", c, "c01", workers=8 if tier == "quick" else 14, timeout=3000)
    nA = 0
    gcases = sorted(read_ndjson(gen.cases_path), key=lambda c_: json.dumps(c_["toks"]))
    ngram = len(gcases)
    if len(gcases) > 20000:
        # thorough tier: every derivation of up to 7 tokens, a seeded sample of the longer ones (two renderings each)
        short = [c_ for c_ in gcases if len(c_["toks"]) <= 7]
        long_ = [c_ for c_ in gcases if len(c_["toks"]) > 7]
        gcases = short + rnd.sample(long_, max(0, min(len(long_), 20000 - len(short))))
    for k, case in enumerate(gcases):
        for var in range(2):
            inputs.append(("grammar", render_tokens(case["toks"], k * 7 + var + vlib.seed()).encode()))
            nA += 1
    open(c, "w").write('SPECIFICATION Spec\nCONSTANTS\n  MaxSteps = 45\n  MaxLen = 160\n  Start = "<Def>"\nINVARIANT Emit\nCHECK_DEADLOCK FALSE\n')
    sim = run_tlc("Grammar", c, "c01", workers=4, simulate=600 if tier == "quick" else 4000, depth=70, timeout=600, cases_suffix="-sim")
    simcases = sorted(read_ndjson(sim.cases_path), key=lambda c_: json.dumps(c_["toks"]))
    rnd.shuffle(simcases)
    for k, case in enumerate(simcases[:2000 if tier == "quick" else 8000]):
        inputs.append(("grammar-deep", render_tokens(case["toks"], k + 13 * vlib.seed()).encode()))
    # ---- A2: every special callee name x 0..3 arguments x three ways of writing the instantiation (the analysis passes key on
    #          Circomlib names and index into the argument list)
    for cal in CALLEES:
        for nargs in range(4):
            args = ", ".join(["8", "n", "254", "a"][:nargs])
            for form in ("component c = %s(%s);\n  c.in <== a;", "signal s <== %s(%s)(a);", "component c[2];\n  c[0] = %s(%s);\n  c[0].in[0] <== a;"):
                body = form % (cal, args)
                for curve in CURVES:
                  inputs.append(("callee-matrix:" + curve, ("pragma circom 2.1.0;\ntemplate W(n) {\n  signal input a;\n  signal output o;\n  %s\n  o <== a;\n}\n" % body).encode()))
    # ---- A3: anonymous-component matrix: callee shapes (inputs / outputs declared once, twice in one block, once per
    #          branch, as arrays, not at all) x ways of calling it (0..3 positional arguments, named arguments with right,
    #          wrong and repeated names, tuples of 1..3 targets, calls nested in expressions and other statements, wrong
    #          parameter counts, callee undefined or a function). The sugar remover indexes argument and signal lists by
    #          position: every count mismatch must end in a report, not in a panic.
    shapes = {
        "plain2": "signal input a;\n  signal input b;\n  signal output o;\n  signal output q;\n  o <== a;\n  q <== b;",
        "dup_branch": "signal output o;\n  if (p == 1) {\n    signal input a;\n    o <== a;\n  } else {\n    signal input a;\n    o <== a + 1;\n  }",
        "dup_block": "signal input a;\n  signal input a;\n  signal output o;\n  o <== a;",
        "dup_out": "signal input a;\n  if (p == 1) {\n    signal output o;\n    o <== a;\n  } else {\n    signal output o;\n    o <== a + 1;\n  }",
        "noin": "signal output o;\n  o <== p;",
        "noout": "signal input a;\n  a === p;",
        "arrays": "signal input a[2];\n  signal output o[2];\n  o[0] <== a[0];\n  o[1] <== a[1];",
    }
    calls = ["r <== A(1)();", "r <== A(1)(x);", "r <== A(1)(x, y);", "r <== A(1)(x, y, x);",
             "r <== A(1)(a <== x);", "r <== A(1)(a <== x, b <-- y);", "r <== A(1)(b <== y, a <== x);", "r <== A(1)(zz <== x);",
             "r <== A(1)(a <== x, a <== y);", "(r) <== A(1)(x);", "(r, t) <== A(1)(x, y);", "(r, t, u) <== A(1)(x, y);", "(_, t) <== A(1)(x, y);",
             "(r, _, _) <== A(1)(x);", "A(1)(x, y);", "A(1)(x);", "r <== A(1)(x, y) + 1;", "r <== A(1)(A(1)(x), y);", "var v = A(1)(x);\n  r <== v;",
             "r <== A()(x);", "r <== A(1, 2)(x, y);", "r <== Nope(1)(x);", "r <== g(1)(x);", "rr <== A(1)([x, y]);", "(rr) <== A(1)(x);",
             "r <== A(1)(x, y).o;", "r <== A(p)(x) ? 1 : 0;", "for (var i = 0; i < 2; i++) {\n    rr[i] <== A(i)(x);\n  }"]
    for sn, body in shapes.items():
        for call in calls:
            text = ("pragma circom 2.1.4;\nfunction g(n) {\n  return n;\n}\ntemplate A(p) {\n  %s\n}\ntemplate M(p) {\n  signal input x;\n  signal input y;\n"
                    "  signal output r;\n  signal output t;\n  signal output u;\n  signal output rr[2];\n  %s\n}\ncomponent main = M(1);\n" % (body, call))
            inputs.append(("anon-matrix:" + sn, text.encode()))
    # ---- A4: semantic corner cases (bin/edgecases.py): legal or legally rejectable programs in which passes fold, index and
    #          unwrap -- division by zero, out-of-range and zero-sized arrays, mismatched shapes, undefined and recursive callees,
    #          duplicate declarations across kinds, odd main components, tags, every operator form -- under each curve
    import edgecases
    for nm, text in edgecases.programs():
        for curve in CURVES:
            inputs.append(("edge-matrix:" + curve, text.encode()))
    # ---- B: corpora
    corpus_texts = []
    for d in ("stress", "base"):
        cdir = os.path.join(vlib.ROOT, "corpus", d)
        for f in sorted(os.listdir(cdir)):
            if f.endswith(".circom"):
                data = open(os.path.join(cdir, f), "rb").read()
                inputs.append(("corpus:" + f, data))
                try:
                    corpus_texts.append(data.decode())
                except UnicodeDecodeError:
                    pass
    # ---- C: all short byte strings over the hostile alphabet (enumerated by TLC via Comments.tla's string machine)
    c = os.path.join(wd, "bytes.cfg")
    nbytes = 3 if tier == "quick" else 4
    open(c, "w").write('SPECIFICATION Spec\nCONSTANTS\n  N = %d\n  Alphabet = {%s}\nINVARIANT Emit\nCHECK_DEADLOCK FALSE\n' %
                       (nbytes, ", ".join('"%s"' % s for s in HOSTILE)))
    bgen = run_tlc("Comments", c, "c01", workers=8, cases_suffix="-bytes", timeout=1200)
    for case in read_ndjson(bgen.cases_path):
        inputs.append(("bytes", b"".join(HOSTILE[s] for s in case["s"])))
    # ---- D: mutations
    nD = 2000 if tier == "quick" else 15000
    small = [t for t in corpus_texts if len(t) < 3000]
    for _ in range(nD):
        if rnd.random() < 0.15:
            a, b = rnd.choice(small), rnd.choice(small)
            data = (a[:rnd.randrange(len(a) + 1)] + b[rnd.randrange(len(b) + 1):]).encode()
        else:
            data = mutate(rnd.choice(small), rnd)
        inputs.append(("mutation", data))
    inputs = [(o, d) for (o, d) in inputs if len(d) <= 4096 or o.startswith("corpus")]
    # directories as input (handled on a best-effort basis by the tool): nested directories, symlink loops
    dir_jobs = [("dir:plain", [{"path": "d/a.circom", "text": corpus_texts[0]}, {"path": "d/sub/b.circom", "text": corpus_texts[1]}], "d"),
                ("dir:symlink-loop", [{"path": "d/a.circom", "text": corpus_texts[0]}, {"path": "d/l1", "symlink": "."}, {"path": "d/l2", "symlink": "."}], "d"),
                ("dir:symlink-to-parent", [{"path": "d/e/a.circom", "text": corpus_texts[0]}, {"path": "d/e/up", "symlink": ".."}, {"path": "d/e/up2", "symlink": "../.."}], "d"),
                ("dir:empty", [{"path": "d/readme.txt", "text": "x"}], "d"),
                ("dir:dangling", [{"path": "d/x.circom", "symlink": "gone.circom"}, {"path": "d/a.circom", "text": corpus_texts[0]}], "d")]
    # ---- run
    def one(i):
        origin, data = inputs[i]
        root = os.path.join(wd, "bin", "p%d" % i)
        files = [{"path": "in.circom", "named": True, "bytes": list(data)}]
        o = OPTS[i % len(OPTS)]
        if origin.startswith("callee-matrix:") or origin.startswith("edge-matrix:"):
            o = dict(o, curve=origin.split(":")[1])
        r = proj.run_binary(files, root, {"level": o["level"], "verbose": o["verbose"], "sarif": o["sarif"]},
                            extra_args=["--curve", o["curve"]], timeout=60)
        import shutil
        shutil.rmtree(root, ignore_errors=True)
        return r
    runs = proj.par_runs(range(len(inputs)), one, workers=12)
    for (origin, files, arg) in dir_jobs:
        root = os.path.join(wd, "bin", "dir")
        cli.materialise([dict(f, named=False) for f in files], root)
        r = cli.run(["--level", "info", os.path.join(root, arg)], timeout=60)
        r["events"] = cli.parse_stdout(r["out"], root + "/")
        r["argv"] = ["--level", "info", arg]
        r["stderr"] = r["err"][-2000:]
        r["stdout"] = r["out"]
        inputs.append((origin, json.dumps(files).encode()))
        runs.append(r)
    records, meta = [], []
    for i, r in enumerate(runs):
        rec = to_record(r, [], [], ["in.circom"])
        records.append(rec)
        meta.append(i)
    rej, tstates = validate(records, "c01", CH=4000)
    for idx, why in rej:
        i = meta[idx]
        r = runs[i]
        origin, data = inputs[i]
        m = re.search(r"panicked at ([^\n]*?):(\d+):\d+:?\n?([^\n]*)", r["stderr"])
        site = ""
        if m:
            f = m.group(1)
            f = re.sub(r".*/(repo/)", "", f)
            f = re.sub(r".*/out/lang\.rs", "parser/lang.lalrpop(generated)", f)
            f = re.sub(r".*/registry/src/[^/]+/", "dep:", f)
            site = " panic %s%s" % (f, "" if "generated" in f else ":" + m.group(2))
            msg = m.group(3)[:80]
        elif "overflowed its stack" in r["stderr"]:
            site = " stack overflow"
        elif r["timeout"]:
            site = " time-out"
        elif "memory allocation" in r["stderr"]:
            site = " out of memory"
        try:
            text = data.decode()
        except UnicodeDecodeError:
            text = None
        v.violation("totality:" + why + site, {"origin": origin, "input_text": text, "input_bytes": list(data) if text is None or len(data) < 64 else None,
                                               "argv": r["argv"], "exit": r["code"], "stderr": r["stderr"][-600:], "stdout_tail": r["stdout"][-400:]})
    origins = {}
    for o, d in inputs:
        origins[o.split(":")[0]] = origins.get(o.split(":")[0], 0) + 1
    distinct = len(set(d for o, d in inputs))
    cov = {"evaluations": len(inputs), "distinct_nontrivial": distinct,
           "rule": ("inputs by origin %s; grammar = leftmost derivations of Grammar.tla with <= %d expansion steps (%s), two renderings each, "
                    "with stress literals/operators/strings; grammar-deep = random derivations (TLC simulation); bytes = every string of "
                    "length <= %d over the 12-symbol hostile alphabet; mutation = seeded token/byte mutations and splices of the corpora; "
                    "options rotate over the 36 combinations of 3 curves x 3 levels x verbose x sarif; non-trivial = distinct inputs "
                    "(byte-wise)") %
                   (origins, steps, ("all %d" % ngram) if ngram == len(gcases) else
                    ("%d of %d: all of up to 7 tokens, the longer ones sampled" % (len(gcases), ngram)), nbytes),
           "samples": [{"origin": o, "input": d.decode("utf-8", "replace")[:300]} for (o, d) in (inputs[5], inputs[nA // 2], inputs[-1])],
           "states": gen.distinct + bgen.distinct + tstates, "transitions": gen.generated + bgen.generated + tstates,
           "traces_validated_against_impl": len(records)}
    return v.finish(cov, assumptions=["`modest size` is read as <= 4 KiB per generated input; the cap per run is 60 s and 4 GiB of address space",
                                      "this family offers neither coverage feedback nor a proof of panic freedom: bounded-exhaustive token model + seeded mutation"])


def replay(path):
    doc = json.load(open(path))
    case = doc["case"]
    wd = os.path.join(vlib.BUILD, "work", "c01", "replay")
    data = case["input_text"].encode() if case.get("input_text") is not None else bytes(case["input_bytes"])
    files = [{"path": "in.circom", "named": True, "bytes": list(data)}]
    named = cli.materialise(files, wd)
    argv = [a if a != "in.circom" else named[0] for a in case["argv"]]
    r = cli.run(argv)
    print(" ".join(case["argv"]))
    print(r["out"][-1500:])
    print(r["err"][-1500:])
    print("exit:", r["code"])
    return 0
