"""C19 — includes: each file once, cycles terminate, only named files reported on (Includes.tla).

L1  TLC: the FileStack machine (repaired) reads exactly the reachable files, each once, marks exactly
    the named ones as user input, reports exactly the unresolvable edges, and terminates (liveness),
    for every include relation over the files x every placement in src/lib x every sequence of
    named files.  (Orig = TRUE, the pinned commit's machine, violates UserIffNamed/EachOnce.)
L2  every project TLC emits is materialised (real directories, `./` and `sub/../` spellings, symlinks,
    -L directory or -L file) and run (a) in-process: FileLibrary must hold each reachable file once,
    parse reports must contain one error per unresolvable edge located at the include statement;
    (b) through the real binary: termination, analysed definitions = definitions of the named files,
    displayed diagnostics accepted by RunnerTrace.tla.
"""
import os, json, random, collections
import vlib, cli, proj
from vlib import Verdict, run_tlc, vh, read_ndjson, write_ndjson, sample

SPELL_LOCAL = ["plain", "dot", "updown", "symlink"]


def render(case, variant):
    """case: {loc, inc, named, ...}; variant: int selecting spellings. -> (files, libs, named_paths_in_order)"""
    loc = case["loc"]
    files_by_f = {}
    extra = []
    lib_files = sorted(f for f in loc if loc[f] == "lib")
    libmode = "dir" if variant % 2 == 0 else "file"
    k = variant
    for f in sorted(loc):
        incs = []
        comps = []
        for (src, g) in sorted(tuple(e) for e in case["inc"]):
            if src != f:
                continue
            k += 1
            if g not in loc:                       # Missing
                sp = "%s.circom" % g
                kind = "none"
            elif loc[g] == loc[f]:
                mode = SPELL_LOCAL[k % 4]
                kind = "local"
                if mode == "plain":
                    sp = "%s.circom" % g
                elif mode == "dot":
                    sp = "./%s.circom" % g
                elif mode == "updown":
                    sp = "sub/../%s.circom" % g
                    extra.append({"path": "%s/sub/keep.txt" % loc[f], "text": "", "named": False})
                else:
                    sp = "ln_%s.circom" % g
                    extra.append({"path": "%s/ln_%s.circom" % (loc[f], g), "symlink": "%s.circom" % g, "named": False})
            elif loc[g] == "lib":
                sp = "%s.circom" % g
                kind = "library"
            else:
                sp = "%s.circom" % g               # lib file naming a src file: not resolvable
                kind = "none"
            incs.append((g, sp, kind))
            if kind != "none" and g != f:
                comps.append(g)
        body = ["  signal input a;", "  signal output o;", "  signal output u;"]
        for g in comps:
            body += ["  component c_%s = T_%s();" % (g, g), "  c_%s.a <== a;" % g]
        body += ["  u <== a;", "  o <-- a + 1;"]
        text = "pragma circom 2.0.0;\n" + "".join('include "%s";\n' % sp for (g, sp, kind) in incs) + \
               "template T_%s() {\n%s\n}\n" % (f, "\n".join(body))
        files_by_f[f] = {"path": "%s/%s.circom" % (loc[f], f), "text": text, "named": False, "incs": incs}
    files = []
    for i, f in enumerate(case["named"]):
        files_by_f[f]["named"] = True
    # named files must be passed in command-line order: the harness and the binary take them in list order
    order = list(case["named"]) + [f for f in sorted(loc) if f not in case["named"]]
    for i, f in enumerate(order):
        d = dict(files_by_f[f])
        if d["named"] and (variant + i) % 3 == 1:
            d["spell"] = "%s/./%s.circom" % (loc[f], f)
        elif d["named"] and (variant + i) % 3 == 2:
            extra.append({"path": "%s/nm_%s.circom" % (loc[f], f), "symlink": "%s.circom" % f, "named": False})
            d["spell"] = "%s/nm_%s.circom" % (loc[f], f)
        files.append(d)
    seen = set()
    for e in extra:
        if e["path"] not in seen:
            seen.add(e["path"])
            files.append(e)
    if not lib_files:
        files.append({"path": "lib/keep.txt", "text": "", "named": False})
    # the library directory is given by an un-canonical spelling, as a user would (`-L ../lib`)
    files.append({"path": "src/keep.txt", "text": "", "named": False})
    libs = ["src/../lib"] if libmode == "dir" else ["lib/%s.circom" % f for f in lib_files]
    return files, libs


def run(tier):
    v = Verdict("C19", tier, "model_checking")
    wd = os.path.join(vlib.BUILD, "work", "c19")
    os.makedirs(wd, exist_ok=True)
    vlib.build_harness()
    rnd = random.Random(vlib.seed())
    fileset = ["a", "b"] if tier == "quick" else ["a", "b", "c"]

    def cfg(name, orig, invs, props=()):
        p = os.path.join(wd, name)
        with open(p, "w") as f:
            f.write('SPECIFICATION Spec\nCONSTANTS\n  Files = {%s}\n  Missing = "zz"\n  Orig = %s\n  MaxNamed = 2\n' %
                    (", ".join('"%s"' % x for x in fileset), "TRUE" if orig else "FALSE"))
            for i in invs:
                f.write("INVARIANT %s\n" % i)
            for i in props:
                f.write("PROPERTY %s\n" % i)
            f.write("CHECK_DEADLOCK FALSE\n")
        return p
    invs = ["EachOnce", "ReadsAreReachable", "UserIffNamed", "ErrorsExact"]
    if tier == "quick":
        l1 = run_tlc("Includes", cfg("l1.cfg", False, invs, ["Terminates"]), "c19", workers=8, cases_suffix="-l1")
    else:
        # liveness over 3 files is checked on 2 files (state space); safety on 3
        l1b = run_tlc("Includes", '/dev/null', "c19") if False else None
        l1 = run_tlc("Includes", cfg("l1.cfg", False, invs), "c19", workers=14, cases_suffix="-l1", timeout=3000, xmx="16g")
    if l1.violated:
        v.drift.append("L1: Includes.tla (repaired machine) violates %s" % l1.violated)
    gen = run_tlc("Includes", cfg("gen.cfg", False, ["Emit"]), "c19", workers=8 if tier == "quick" else 14, timeout=3000, xmx="16g")
    cases = list(read_ndjson(gen.cases_path))
    if len(cases) > (4000 if tier == "quick" else 40000):
        cases = rnd.sample(cases, 4000 if tier == "quick" else 40000)
    jobs = []
    for i, c in enumerate(cases):
        variant = i % 8
        files, libs = render(c, variant)
        jobs.append((i, c, files, libs))
    # (a) in-process
    pin, pout = os.path.join(wd, "pipe.in"), os.path.join(wd, "pipe.out")
    write_ndjson(pin, [{"id": i, "files": [{k: f[k] for k in f if k != "incs"} for f in files], "libs": libs} for i, c, files, libs in jobs])
    vh(["produce", pin, pout], timeout=3000)
    oracle = list(read_ndjson(pout))
    records, meta = [], []
    nontriv = 0
    for (i, c, files, libs), doc in zip(jobs, oracle):
        pub = [{k: f[k] for k in f if k != "incs"} for f in files]
        info = {"case": c, "files": pub, "libs": libs}
        if c["unresolved"] or any(c["loc"][e[1]] == "lib" for e in c["inc"] if e[1] in c["loc"]) or len(c["reachable"]) > len(c["named"]):
            nontriv += 1
        if "panic" in doc:
            v.violation("include:panic " + doc["panic"]["site"], info)
            continue
        # each reachable file read exactly once
        cnt = collections.Counter()
        for f in doc["files"]:
            base = os.path.basename(f["path"])[:-len(".circom")]
            cnt[base] += 1
        for f in sorted(c["loc"]):
            want = 1 if f in c["reachable"] else 0
            if cnt.get(f, 0) != want:
                v.violation("include:file read %s" % ("more than once" if cnt.get(f, 0) > want else "not at all" if want else "although unreachable"),
                            dict(info, file=f, library_entries=[x["path"] for x in doc["files"]]))
        # user-input marking
        for f in doc["files"]:
            base = os.path.basename(f["path"])[:-len(".circom")]
            if f["named"] != (base in c["named"]):
                v.violation("include:named/included status wrong", dict(info, file=base, library_entries=doc["files"]))
        # unresolved includes: one error each, located at the include statement
        spells = {}
        for f in files:
            for (g, sp, kind) in f.get("incs", []):
                spells[(os.path.basename(f["path"])[:-7], g)] = sp
        errs = [r for r in doc["parse"] if r["id"] == "P1000" and r["msg"].startswith("Failed to open file")]
        for (src, g) in [tuple(e) for e in c["unresolved"]]:
            sp = spells[(src, g)]
            hits = [r for r in errs if ("`%s`" % sp) in r["msg"] and r["primary"] and os.path.basename(r["primary"][0]["file"]) == src + ".circom"]
            if len(hits) != 1:
                v.violation("include:unresolved include %s" % ("not reported" if not hits else "reported more than once"),
                            dict(info, edge=[src, g], spelling=sp, parse_reports=[(r["msg"], r["primary"]) for r in doc["parse"]]))
            elif 'include "%s"' % sp not in (hits[0]["primary"][0]["text"] or ""):
                v.violation("include:error not located at the include statement", dict(info, edge=[src, g], label=hits[0]["primary"][0]))
        if len(errs) != len(c["unresolved"]):
            v.violation("include:spurious include error", dict(info, parse_reports=[r["msg"] for r in doc["parse"]]))
        # included definitions inform the analysis of the named files
        for d in doc["defs"]:
            f = d["name"][2:]
            if d["named"] and d.get("lift_ok"):
                for (g, sp, kind) in [x for ff in files if os.path.basename(ff["path"]) == f + ".circom" for x in ff.get("incs", [])]:
                    if kind != "none" and g != f:
                        if not any(r["id"] == "CS0018" and "`T_%s`" % g in r["msg"] for r in d["pass_reports"]):
                            v.violation("include:included definition does not inform the analysis", dict(info, definition=d["name"], included=g))
    # (a2) a file that does not parse is still one file: a leaf of the include graph that is reached at least twice (by two include
    #      statements, or by one and the command line) gets a syntax error; it must be read exactly once and its error reported once
    bl_jobs = []
    for (i, c, files, libs) in jobs:
        for g in sorted(c["loc"]):
            if g not in c["reachable"] or any(e[0] == g for e in c["inc"]):
                continue
            ways = len([e for e in c["inc"] if e[1] == g and e[0] in c["reachable"]]) + (1 if g in c["named"] else 0)
            if ways < 2:
                continue
            pub = []
            for f in files:
                d = {k: f[k] for k in f if k != "incs"}
                if d["path"].endswith("/%s.circom" % g) and "text" in d:
                    d["text"] = "pragma circom 2.0.0;\ntemplate T_%s() {\n  signal input a\n  signal output o;\n}\n" % g
                pub.append(d)
            bl_jobs.append((c, g, pub, libs))
            break
    if tier == "quick" and len(bl_jobs) > 600:
        bl_jobs = rnd.sample(bl_jobs, 600)
    n_broken = len(bl_jobs)
    if bl_jobs:
        bin_, bout = os.path.join(wd, "broken.in"), os.path.join(wd, "broken.out")
        write_ndjson(bin_, [{"id": i, "files": pub, "libs": libs} for i, (c, g, pub, libs) in enumerate(bl_jobs)])
        vh(["produce", bin_, bout], timeout=3000)
        for (c, g, pub, libs), doc in zip(bl_jobs, read_ndjson(bout)):
            info = {"case": c, "files": pub, "libs": libs, "unparsable": g}
            if "panic" in doc:
                v.violation("include:panic " + doc["panic"]["site"], info)
                continue
            cnt = collections.Counter(os.path.basename(f["path"])[:-len(".circom")] for f in doc["files"])
            for f in sorted(c["loc"]):
                want = 1 if f in c["reachable"] else 0
                if cnt.get(f, 0) != want:
                    v.violation("include:file read %s" % ("more than once" if cnt.get(f, 0) > want else "not at all" if want else "although unreachable"),
                                dict(info, file=f, library_entries=[x["path"] for x in doc["files"]]))
            perr = [r for r in doc["parse"] if r["primary"] and os.path.basename(r["primary"][0]["file"]) == g + ".circom" and r["id"].startswith("P")]
            if len(perr) != 1:
                v.violation("include:parse error of a file reached twice %s" % ("not reported" if not perr else "reported more than once"),
                            dict(info, parse_reports=[(r["id"], r["msg"]) for r in doc["parse"]]))
    # (b) the real binary
    bjobs = jobs if tier == "quick" else rnd.sample(jobs, min(len(jobs), 12000))

    def one(job):
        i, c, files, libs = job
        pub = [{k: f[k] for k in f if k != "incs"} for f in files]
        return proj.run_binary(pub, os.path.join(wd, "bin", "p%d" % i), {"level": "warning", "verbose": i % 2 == 0}, libs=libs, timeout=30)
    runs = proj.par_runs(bjobs, one, workers=10)
    for (i, c, files, libs), r in zip(bjobs, runs):
        pub = [{k: f[k] for k in f if k != "incs"} for f in files]
        info = {"case": c, "files": pub, "libs": libs, "argv": r["argv"], "stdout": r["stdout"][-2500:], "stderr": r["stderr"][-400:], "exit": r["code"]}
        if r["timeout"]:
            v.violation("include:does not terminate", info)
            continue
        doc = oracle[i]
        if "panic" in doc:
            continue
        produced = proj.produced_list(doc, pub)
        defs = ["T_%s" % f for f in c["named"]]          # Ref: exactly the definitions of the named files
        records.append(proj.trace_record(r, produced, defs, {"level": "warning"}))
        meta.append(info)
    # ---- homonyms (IncludesNames.tla): a file is <<directory, name>>; an include names a NAME; which file it denotes depends on
    #      the directory of the including file, then on the library
    hc = os.path.join(wd, "names.cfg")
    open(hc, "w").write('SPECIFICATION Spec\nCONSTANTS\n  Names = {"u", "v"}\n  MaxFiles = 4\n  MaxEdges = %d\n  MaxNamed = 2\n'
                        'INVARIANT EachOnce\nINVARIANT ReadsAreReachable\nINVARIANT UserIffNamed\nINVARIANT ErrorsExact\nINVARIANT Emit\n'
                        'PROPERTY Terminates\nCHECK_DEADLOCK FALSE\n' % (2 if tier == "quick" else 3))
    hgen = run_tlc("IncludesNames", hc, "c19", workers=8, cases_suffix="-names", timeout=3000, xmx="12g")
    if hgen.violated:
        v.drift.append("L1: IncludesNames.tla violates %s" % hgen.violated)
    hcases = list(read_ndjson(hgen.cases_path))          # all of them go through the in-process pipeline; a sample through the binary
    hcap = 20000 if tier == "quick" else 200000
    if len(hcases) > hcap:
        hcases = rnd.sample(hcases, hcap)

    def hpath(f):
        return "%s/%s.circom" % (f[0], f[1])

    def hrender(c):
        files = []
        order = [tuple(f) for f in c["named"]] + [tuple(f) for f in c["exists"] if list(f) not in [list(x) for x in c["named"]]]
        for f in order:
            incs = sorted(e[1] for e in c["inc"] if tuple(e[0]) == f)
            text = "pragma circom 2.0.0;\n" + "".join('include "%s.circom";\n' % n for n in incs) + \
                   "template T_%s_%s() {\n  signal input a;\n  signal output o;\n  o <-- a + 1;\n}\n" % f
            files.append({"path": hpath(f), "text": text, "named": list(f) in [list(x) for x in c["named"]]})
        for d in ("s1", "s2", "lib"):
            files.append({"path": d + "/keep.txt", "text": "", "named": False})
        return files
    hjobs = [(i, c, hrender(c)) for i, c in enumerate(hcases)]
    write_ndjson(pin, [{"id": i, "files": files, "libs": ["lib"]} for i, c, files in hjobs])
    vh(["produce", pin, pout], timeout=3000)
    horacle = list(read_ndjson(pout))
    for (i, c, files), doc in zip(hjobs, horacle):
        info = {"case": c, "files": files, "libs": ["lib"]}
        if "panic" in doc:
            v.violation("include:panic " + doc["panic"]["site"], info)
            continue
        cnt = collections.Counter("/".join(f["path"].replace("\\", "/").split("/")[-2:]) for f in doc["files"])
        reach = set(hpath(f) for f in c["reachable"])
        for f in c["exists"]:
            want = 1 if hpath(f) in reach else 0
            got = cnt.get(hpath(f), 0)
            if got != want:
                v.violation("include:homonym: file read %s" % ("more than once" if got > want else "not at all" if want else "although another file of that name is meant"),
                            dict(info, file=hpath(f), library_entries=[x["path"] for x in doc["files"]]))
        for f in doc["files"]:
            rel = "/".join(f["path"].split("/")[-2:])
            if f["named"] != (rel in [hpath(x) for x in c["named"]]):
                v.violation("include:named/included status wrong", dict(info, file=rel))
        errs = [r for r in doc["parse"] if r["id"] == "P1000" and r["msg"].startswith("Failed to open file")]
        if len(errs) != len(c["unresolved"]):
            v.violation("include:homonym: include errors differ from the unresolvable include statements",
                        dict(info, expected=c["unresolved"], parse_reports=[r["msg"] for r in doc["parse"]]))

    def hone(job):
        i, c, files = job
        return proj.run_binary(files, os.path.join(wd, "bin", "h%d" % i), {"level": "warning", "verbose": i % 2 == 0}, libs=["lib"], timeout=30)
    hb = rnd.sample(hjobs, min(len(hjobs), 1500 if tier == "quick" else 8000))
    for (i, c, files), r in zip(hb, proj.par_runs(hb, hone, workers=10)):
        info = {"case": c, "files": files, "libs": ["lib"], "argv": r["argv"], "stdout": r["stdout"][-2500:], "stderr": r["stderr"][-400:], "exit": r["code"]}
        if r["timeout"]:
            v.violation("include:does not terminate", info)
            continue
        if "panic" in horacle[i]:
            continue
        records.append(proj.trace_record(r, proj.produced_list(horacle[i], files), ["T_%s_%s" % tuple(f) for f in c["named"]], {"level": "warning"}))
        meta.append(info)
    rejects, tstates = proj.validate_traces(records, "c19")
    for idx, why in rejects:
        v.violation("include:" + why, meta[idx])
    n_eval = len(jobs) + len(hjobs) + len(records)
    cov = {"states": l1.distinct + gen.distinct + tstates, "transitions": l1.generated + gen.generated + tstates,
           "traces_validated_against_impl": n_eval, "exhaustive": tier == "quick", "evaluations": n_eval, "distinct_nontrivial": nontriv,
           "rule": "homonyms (IncludesNames.tla): every project of <= 3 files over two source directories and the library directory in which one name exists twice, every set of include statements and sequence of named files, each include resolved relative to the including file, then through -L; and every include relation over files %s plus a missing target x every placement in src/lib x every sequence of <= 2 "
                   "named files (%d projects%s), spellings (plain, ./, sub/../, symlink, -L dir / -L file, named via ./ or symlink) "
                   "rotated over the edges; each project run in-process and through the real binary (%d runs validated by "
                   "RunnerTrace.tla); non-trivial = has an unresolved edge, a library edge or an included-only file" %
                   (fileset, len(jobs), "" if tier == "quick" else ", sampled", len(records)),
           "samples": [cases[0], cases[len(cases) // 3], cases[-1]],
           "l1": {"module": "Includes", "invariants": invs + (["Terminates (liveness)"] if tier == "quick" else []),
                  "distinct": l1.distinct, "violated": l1.violated}}
    return v.finish(cov, assumptions=["a file is identified by its base name in the generated projects (symlinks have other names)",
                                      "resolution rule of the model: same directory = local; target in lib = through -L; otherwise unresolvable"])


def replay(path):
    doc = json.load(open(path))
    case = doc["case"]
    wd = os.path.join(vlib.BUILD, "work", "c19", "replay")
    r = proj.run_binary(case["files"], wd, {"level": "warning", "verbose": True}, libs=case.get("libs"))
    print(" ".join(r["argv"]))
    print(r["stdout"])
    print("exit:", r["code"])
    return 0
