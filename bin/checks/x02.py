"""X02 (extra, not a listed property) — the real value / degree propagation follows Propagate.tla pass by pass.

Trace validation in the strict sense: for every generated definition the real code is stopped after k = 0, 1, 2, ... passes
(hook H2) and the knowledge attached to every expression node and assignment is exported; Propagate.tla (an Impl model with the
code's evaluation order and short-circuits) must pass through exactly these states and stop after the same number of passes.
A difference is DRIFT between the description and the code (reported as a VIOLATION of X02, which is not one of the 20
properties and is not registered in MANIFEST.checks)."""
import os, json, random
import vlib, sem
from vlib import Verdict, run_tlc, vh, read_ndjson, write_ndjson


def key(n):
    return "%s.%s.%d" % (n["n"], n["s"], n["v"])


class Flat:
    def __init__(self, P):
        self.nodes, self.P = [], P

    def expr(self, e):
        base = {"k": e["k"], "op": e.get("op", ""), "l": 0, "r": 0, "c": 0, "x": "", "v": 0, "kids": [], "phi": []}
        k = e["k"]
        if k == "infix":
            base["l"], base["r"] = self.expr(e["l"]), self.expr(e["r"])
        elif k == "prefix":
            base["r"] = self.expr(e["r"])
        elif k == "switch":
            base["c"], base["l"], base["r"] = self.expr(e["c"]), self.expr(e["t"]), self.expr(e["f"])
        elif k == "var":
            base["x"] = key(e["name"])
        elif k == "num":
            base["v"] = int(e["num"]) % self.P
        elif k in ("call", "array"):
            base["kids"] = [self.expr(a) for a in e["args"]]
        elif k == "access":
            base["x"] = key(e["name"])
            base["kids"] = [self.expr(a["i"]) for a in e["acc"] if "i" in a]
        elif k == "update":
            base["x"] = key(e["name"])
            base["r"] = self.expr(e["r"])
            base["kids"] = [self.expr(a["i"]) for a in e["acc"] if "i" in a]
        elif k == "phi":
            base["phi"] = [key(a) for a in e["phiargs"]]
        self.nodes.append(base)
        base["_src"] = e
        return len(self.nodes)


def flatten(ssa, P):
    fl = Flat(P)
    blocks, nst = [], 0
    srcs = []
    for b in ssa["blocks"]:
        stmts = []
        for s in b["stmts"]:
            nst += 1
            st = {"k": s["k"], "x": "", "ty": "", "tyk": s.get("ty_known") or "", "names": [], "e": 0, "e2": 0, "kids": [], "i": nst}
            srcs.append(s)
            if s["k"] == "decl":
                st["names"] = [key(n) for n in s["names"]]
                st["ty"] = s["ty"]
                st["kids"] = [fl.expr(d) for d in s["dims"]]
            elif s["k"] == "sub":
                st["x"] = key(s["var"])
                st["e"] = fl.expr(s["rhe"])
            elif s["k"] == "if":
                st["e"] = fl.expr(s["cond"])
            elif s["k"] == "ret":
                st["e"] = fl.expr(s["value"])
            elif s["k"] == "assert":
                st["e"] = fl.expr(s["arg"])
            elif s["k"] == "ceq":
                st["e2"] = fl.expr(s["lhe"])
                st["e"] = fl.expr(s["rhe"])
            elif s["k"] == "log":
                st["kids"] = [fl.expr(a) for a in s["args"] if a.get("k") != "str"]
            stmts.append(st)
        blocks.append({"npreds": len(b["preds"]), "stmts": stmts})
    return fl, blocks, nst, srcs


def val_of(v):
    if v is None:
        return {"b": False, "v": -1}
    if "b" in v:
        return {"b": True, "v": 1 if v["b"] else 0}
    return {"b": False, "v": int(v["n"])}


def snapshot(ssa, P):
    fl, blocks, nst, srcs = flatten(ssa, P)
    d = [(n["_src"]["deg"] if n["_src"].get("deg") is not None else [-1, -1]) for n in fl.nodes]
    v = [val_of(n["_src"].get("val")) for n in fl.nodes]
    s = [val_of(x.get("val")) for x in srcs]
    return d, v, s


def run(tier):
    v = Verdict("X02", tier, "model_checking")
    wd = os.path.join(vlib.BUILD, "work", "x02")
    os.makedirs(wd, exist_ok=True)
    vlib.build_harness()
    seed = vlib.seed()
    P = 5
    # programs: SemGen skeleton instances and ExprGen expressions in the data-flow contexts (as in C06 / C07 / C20)
    progs = []
    for template in (False, True):
        c = os.path.join(wd, "gen.cfg")
        open(c, "w").write("SPECIFICATION Spec\nCONSTANTS\n  MaxSteps = %d\n  MaxLen = 24\n  Template = %s\n  Arrays = TRUE\nINVARIANT Emit\nCHECK_DEADLOCK FALSE\n" %
                           (6 if tier == "quick" else 7, "TRUE" if template else "FALSE"))
        g = run_tlc("SemGen", c, "x02", workers=8, cases_suffix="-%s" % template, timeout=1800)
        for kk, x in enumerate(read_ndjson(g.cases_path)):
            for j in range(1 if tier == "quick" else 2):
                progs.append(sem.instantiate(x["toks"], P, seed * 1000003 + kk * 17 + j, template)[0])
    ec = os.path.join(wd, "expr.cfg")
    ALLB = '"mul", "div", "add", "sub", "pow", "idiv", "mod_op", "shift_l", "shift_r", "lesser_eq", "greater_eq", "lesser", "greater", "eq", "not_eq", "bool_or", "bool_and", "bit_or", "bit_and", "bit_xor"'
    open(ec, "w").write('SPECIFICATION Spec\nCONSTANTS\n  Deep = FALSE\n  Atoms = {"sa", "pn", "lv", "k2", "k0"}\n  BinOps = {%s}\n  UnOps = {"prefix_sub", "not", "complement_256"}\n'
                        'INVARIANT Emit\nCHECK_DEADLOCK FALSE\n' % ALLB)
    eg = run_tlc("ExprGen", ec, "x02", workers=4, cases_suffix="-expr", timeout=1800)
    exprs = [x["toks"] for x in read_ndjson(eg.cases_path)]
    ctxs = sem.FUNC_CTX + sem.TEMPL_CTX
    for j, e in enumerate(exprs):
        for ctx in (ctxs if tier != "quick" else [ctxs[(j + d) % len(ctxs)] for d in (0, 5)]):
            progs.append(sem.expr_program(e, ctx, P)[0])
    cap = 1500 if tier == "quick" else 12000
    if len(progs) > cap:
        progs = random.Random(seed).sample(progs, cap)
    pin, pout = os.path.join(wd, "ir.in"), os.path.join(wd, "ir.out")
    write_ndjson(pin, [{"id": i, "src": t, "prime": str(P), "passes": True} for i, t in enumerate(progs)])
    vh(["irdump", pin, pout], timeout=3000)
    docs = list(read_ndjson(pout))
    jobs, jmeta = [], []
    for i, d in enumerate(docs):
        if "panic" in d:
            v.violation("x02:panic %s" % d["panic"]["site"], {"source": progs[i], "panic": d["panic"]})
            continue
        if "ssa" not in d:
            continue
        for j in range(0, d["passes_run"]["d"] + 1):
            jobs.append({"id": len(jobs), "src": progs[i], "prime": str(P), "passes": True, "budget": {"v": -1, "d": j}})
            jmeta.append((i, "d", j))
        for j in range(0, d["passes_run"]["v"] + 1):
            jobs.append({"id": len(jobs), "src": progs[i], "prime": str(P), "passes": True, "budget": {"v": j, "d": -1}})
            jmeta.append((i, "v", j))
    write_ndjson(pin, jobs)
    vh(["irdump", pin, pout], timeout=3000)
    snaps = {}
    for (i, which, j), d in zip(jmeta, read_ndjson(pout)):
        snaps.setdefault(i, {"d": {}, "v": {}})[which][j] = d
    recs, meta = [], []
    for i, d in enumerate(docs):
        if "ssa" not in d or i not in snaps:
            continue
        fl, blocks, nst, _ = flatten(d["ssa"], P)
        nodes = [{k_: n[k_] for k_ in n if k_ != "_src"} for n in fl.nodes]
        sd = [snapshot(snaps[i]["d"][j]["ssa"], P)[0] for j in sorted(snaps[i]["d"])]
        sv, ss = [], []
        for j in sorted(snaps[i]["v"]):
            _, a, b = snapshot(snaps[i]["v"][j]["ssa"], P)
            sv.append(a)
            ss.append(b)
        recs.append({"P": P, "function": d["ssa"]["kind"].lower().startswith("function"), "params": [key(p) for p in d["ssa"]["params"]],
                     "nodes": nodes, "blocks": blocks, "nstmts": nst, "snapD": sd, "snapV": sv, "snapS": ss,
                     "passesD": d["passes_run"]["d"], "passesV": d["passes_run"]["v"]})
        meta.append(i)
    cfg = os.path.join(wd, "prop.cfg")
    open(cfg, "w").write("SPECIFICATION Spec\nINVARIANT Conforms\nINVARIANT Consumed\nCHECK_DEADLOCK FALSE\n")
    states = gen = 0
    chunk = 400
    npasses = 0
    for off in range(0, len(recs), chunk):
        tpath = os.path.join(wd, "prop.trace.ndjson")
        write_ndjson(tpath, recs[off:off + chunk])
        tr = run_tlc("Propagate", cfg, "x02", workers=1, env={"TRACE": tpath}, tags=("REJECT", "CONSUMED"), cases_suffix="-ptrace", timeout=3000, xmx="8g")
        states += tr.distinct
        gen += tr.generated
        if not any(t == "CONSUMED" for t, _ in tr.prints):
            raise vlib.ToolError("Propagate did not consume the whole trace")
        for tag, s_ in tr.prints:
            if tag == "REJECT":
                dd = json.loads(s_)
                r = recs[off + dd["idx"] - 1]
                node = r["nodes"][dd["node"] - 1] if dd.get("node") else None
                v.violation("x02:drift:" + dd["why"], {"source": progs[meta[off + dd["idx"] - 1]], "pass": dd["pass"], "node": node,
                                                       "model": dd.get("model"), "code": dd.get("code")})
    npasses = sum(max(r["passesD"], r["passesV"]) for r in recs)
    cov = {"states": states, "transitions": gen, "traces_validated_against_impl": len(recs), "exhaustive": False, "evaluations": npasses,
           "distinct_nontrivial": len(recs),
           "rule": "%d generated definitions (SemGen.tla skeleton instances incl. arrays, ExprGen.tla expressions in the data-flow contexts) over F_%d; "
                   "the real code stopped after every number of passes (hook H2): %d recorded states, each compared node by node (degree range, "
                   "constant) with the state of Propagate.tla after the same number of passes, and the number of passes compared" % (len(recs), P, npasses + 2 * len(recs))}
    return v.finish(cov, assumptions=["node identity: both sides enumerate the exported SSA form in the same order",
                                      "extra check: a rejection is drift between Propagate.tla and the code, not a violation of one of the 20 properties"])


def replay(path):
    doc = json.load(open(path))["case"]
    print(doc.get("source"))
    print({k: doc[k] for k in doc if k != "source"})
    return 0
