"""C20 — cutting propagation short is safe. See bin/sem.py (driver), spec/SemGen.tla (skeletons), spec/Semantics.tla (reference executor)."""
import json
import sem


def run(tier):
    return sem.run_check("C20", tier, ("val", "deg"), budgets=True)


def replay(path):
    doc = json.load(open(path))["case"]
    print(doc.get("source"))
    print({k: doc[k] for k in doc if k != "source"})
    return 0
