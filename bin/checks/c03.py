"""C03 — report conservation and the output contract. See DESIGN.md §5 C03.

L1  TLC: Runner.tla (repaired algorithm) satisfies Conservation / NeverTwice for every configuration
    of <= 2 (3) definitions x every look-up relation x every analysis order; Output.tla's writer
    model satisfies the output contract for every option set.
L2a schedules: every (configuration, order) TLC emits is rendered as a project and replayed on the
    real AnalysisRunner through hook H4 with a recording writer; what the runner offers to the
    writer must equal, as a multiset and per definition, what the independent production oracle
    (harness/src/oracle.rs: public stage functions only) says is produced.
L2b what the user sees: the real binary is run on every configuration; stdout, SARIF and exit status
    are validated by TLC against RunnerTrace.tla.
L2c filter lattice: for a set of projects TLC (Output.tla) enumerates every (level, allow-subset, sarif,
    verbose) option set over the ids of the unfiltered run; the binary is run on each and validated by
    RunnerTrace.tla.
"""
import os, json, random, collections
import vlib, cli, proj
from vlib import Verdict, run_tlc, vh, read_ndjson, write_ndjson, sample

COMPLEX = ("pragma circom 2.0.0;\ninclude \"lib.circom\";\ntemplate Big(n) {\n  signal input a;\n  signal output o;\n  var x = 0;\n" +
           "".join("  if (n == %d) { x += %d; }\n" % (i, i) for i in range(22)) +
           "  component l = L();\n  l.a <== a;\n  o <== a * x + l.o;\n}\n"
           "function f(k) {\n  var r = k * 2;\n  return r;\n}\n")
COMPLEX_LIB = ("pragma circom 2.0.0;\ntemplate L() {\n  signal input a;\n  signal output o;\n  var s = 1;\n  { var s = 2; }\n  o <-- a;\n}\n")


def conf_key(conf):
    return json.dumps(conf, sort_keys=True)


def offered_by_def(doc):
    """Recorder events -> {def name: [reports]} (stage = last 'analyzing' message)."""
    cur, out = None, collections.OrderedDict()
    for e in doc.get("events", []):
        if e["e"] == "msg":
            m = cli.ANALYZING.match(e["text"])
            if m:
                cur = m.group(2)
                out.setdefault(cur, [])
        elif e["e"] == "report":
            out.setdefault(cur, []).append(e["r"])
    return out


def bag(reps, texts):
    return collections.Counter(proj.keys(r, texts)[1] for r in reps)


def run(tier):
    v = Verdict("C03", tier, "model_checking")
    wd = os.path.join(vlib.BUILD, "work", "c03")
    os.makedirs(wd, exist_ok=True)
    vlib.build_harness()
    rnd = random.Random(vlib.seed())

    def cfg(name, defs, orig, maxlooks, invs, view=True):
        p = os.path.join(wd, name)
        with open(p, "w") as f:
            f.write("SPECIFICATION Spec\nCONSTANTS\n  Defs = {%s}\n  Orig = %s\n  MaxLooks = %d\n" %
                    (", ".join('"%s"' % d for d in defs), "TRUE" if orig else "FALSE", maxlooks))
            if view:
                f.write("VIEW view\n")
            for i in invs:
                f.write("INVARIANT %s\n" % i)
            f.write("CHECK_DEADLOCK FALSE\n")
        return p
    # ---- L1
    if tier == "quick":
        l1 = run_tlc("Runner", cfg("l1.cfg", ["A", "B"], False, 2, ["NeverTwice", "Conservation", "OrderIndependent"]), "c03",
                     workers=8, cases_suffix="-l1")
    else:
        l1 = run_tlc("Runner", cfg("l1.cfg", ["A", "B", "C"], False, 1, ["NeverTwice", "Conservation", "OrderIndependent"]), "c03",
                     workers=14, cases_suffix="-l1", timeout=3000, xmx="16g")
    if l1.violated:
        v.drift.append("L1: Runner.tla (repaired algorithm) violates %s" % l1.violated)
    l1o = run_tlc("Runner", cfg("l1o.cfg", ["A", "B"], True, 2, ["Conservation"]), "c03", workers=4, cases_suffix="-l1o")
    # ---- schedules
    if tier == "quick":
        gen = run_tlc("Runner", cfg("gen.cfg", ["A", "B"], False, 2, ["EmitSchedule"], view=False), "c03", workers=8)
    else:
        gen = run_tlc("Runner", cfg("gen.cfg", ["A", "B", "C"], False, 1, ["EmitSchedule"], view=False), "c03", workers=14,
                      timeout=3000, xmx="16g")
    sched = list(read_ndjson(gen.cases_path))
    for s in sched:
        for d in s["conf"]:
            s["conf"][d]["looks"] = sorted(s["conf"][d]["looks"])
    confs = {}
    for s in sched:
        confs.setdefault(conf_key(s["conf"]), s["conf"])
    conf_list = list(confs.items())
    if tier == "thorough" and len(sched) > 60000:
        sched = rnd.sample(sched, 60000)
    # oracle per configuration
    oin, oout = os.path.join(wd, "oracle.in"), os.path.join(wd, "oracle.out")
    files_of = {k: proj.render_conf(c) for k, c in conf_list}
    write_ndjson(oin, [{"id": i, "files": files_of[k]} for i, (k, c) in enumerate(conf_list)])
    vh(["produce", oin, oout])
    oracle = {}
    for (k, c), doc in zip(conf_list, read_ndjson(oout)):
        if "panic" in doc:
            raise vlib.ToolError("oracle panicked on a rendered configuration: %s" % doc["panic"])
        oracle[k] = doc
        # rendering sanity: the concrete project has the abstract features (else the model and the renderer drifted)
        for d in doc["defs"]:
            cd = c[d["name"]]
            shadow = sum(1 for r in d["cfg_reports"] if r["id"] == "CS0001")
            if d["lift_ok"] != cd["liftOk"] or d["named"] != cd["named"] or shadow != cd["cfgRep"] or \
                    (d["lift_ok"] and set(d["lookups"]) != set(cd["looks"])):
                raise vlib.ToolError("rendered project does not have the abstract configuration's features: %s / %s" % (cd, d))
    # replay every schedule on the real runner (H4)
    pin, pout = os.path.join(wd, "sched.in"), os.path.join(wd, "sched.out")
    write_ndjson(pin, [{"id": i, "files": files_of[conf_key(s["conf"])], "order": [[True, d] for d in s["order"]]}
                       for i, s in enumerate(sched)])
    vh(["pipeline", pin, pout], timeout=3000)
    n_sched = 0
    for s, doc in zip(sched, read_ndjson(pout)):
        n_sched += 1
        k = conf_key(s["conf"])
        texts = proj.file_texts(files_of[k])
        if "panic" in doc:
            v.violation("runner:panic " + doc["panic"]["site"], {"part": "schedule", "conf": s["conf"], "order": s["order"], "files": files_of[k]})
            continue
        off = offered_by_def(doc)
        for d in oracle[k]["defs"]:
            want = bag(d["cfg_reports"] + d["pass_reports"], texts) if d["named"] else collections.Counter()
            have = bag(off.get(d["name"], []), texts)
            if want != have:
                lost = want - have
                extra = have - want
                if lost:
                    stage = "cfg-stage" if any(x in bag(d["cfg_reports"], texts) for x in lost) else "pass"
                    sig = "runner:%s report lost" % stage
                else:
                    sig = "runner:report offered twice or not produced"
                v.violation(sig, {"part": "schedule", "conf": s["conf"], "order": s["order"], "definition": d["name"],
                                  "lost": sorted(lost.elements()), "extra": sorted(extra.elements()), "files": files_of[k]})
    # ---- L2b: the real binary on every configuration (sample in thorough tier), default options + sarif
    bconfs = conf_list if len(conf_list) <= 1100 else rnd.sample(conf_list, 1100)
    jobs = []
    for i, (k, c) in enumerate(bconfs):
        opts = {"level": "info" if i % 3 == 0 else ("warning" if i % 3 == 1 else "error"), "allow": ["CS0006"] if i % 4 == 0 else [],
                "sarif": i % 2 == 0, "verbose": i % 5 == 0}
        jobs.append((i, k, opts))

    def one(job):
        i, k, opts = job
        return proj.run_binary(files_of[k], os.path.join(wd, "bin", "p%d" % i), opts)
    runs = proj.par_runs(jobs, one)
    records, rec_meta = [], []
    for (i, k, opts), r in zip(jobs, runs):
        produced = proj.produced_list(oracle[k], files_of[k])
        defs = proj.named_defs(oracle[k], files_of[k])
        records.append(proj.trace_record(r, produced, defs, opts))
        rec_meta.append({"part": "binary", "conf": confs[k], "opts": opts, "files": files_of[k], "argv": r["argv"],
                         "stdout": r["stdout"][-3000:], "stderr": r["stderr"][-500:], "exit": r["code"]})
    # ---- L2c: filter lattice
    lattice_projects = []
    cdir = os.path.join(vlib.ROOT, "corpus", "base")
    for f in sorted(os.listdir(cdir)):
        if f.endswith(".circom"):
            lattice_projects.append([{"path": f, "named": True, "text": open(os.path.join(cdir, f)).read()}])
    lattice_projects.append([{"path": "big.circom", "named": True, "text": COMPLEX}, {"path": "lib.circom", "named": False, "text": COMPLEX_LIB}])
    # multi-byte characters in front of the reported constructs, on their lines: SARIF columns count characters, as the terminal does
    mb = open(os.path.join(cdir, "p5.circom")).read()
    mb = "\n".join(("/*é日本😀*/ " + ln if ln.startswith("  ") else ln) for ln in mb.split("\n"))
    lattice_projects.append([{"path": "multibyte.circom", "named": True, "text": mb}])
    # a named file that is also included by another named file, in both command-line orders: user-specified all the same
    lattice_projects.append([{"path": "big.circom", "named": True, "text": COMPLEX}, {"path": "lib.circom", "named": True, "text": COMPLEX_LIB}])
    lattice_projects.append([{"path": "lib.circom", "named": True, "text": COMPLEX_LIB}, {"path": "big.circom", "named": True, "text": COMPLEX}])
    lattice_projects.append([{"path": "nopragma.circom", "named": True, "text": "template T() {\n  signal input a;\n  signal output b;\n  b <-- a;\n}\n"}])
    # twin files: two (three) user-specified files with the same layout, whose definitions differ only in an equally long name, so that
    # their findings agree in id, message and byte span and differ in the file alone: each must still be displayed once per file
    def twin(nm):
        return ("pragma circom 2.0.0;\ntemplate %s() {\n  signal input a;\n  signal output o;\n  var s = 1;\n  { var s = 2; }\n  o <-- a;\n}\n"
                "function f%s(k) {\n  var r = k * 2;\n  var u = 3;\n  return r;\n}\n" % (nm, nm))
    lattice_projects.append([{"path": "twin_a.circom", "named": True, "text": twin("Aa")}, {"path": "twin_b.circom", "named": True, "text": twin("Bb")}])
    if tier != "quick":
        lattice_projects.append([{"path": "twin_%s.circom" % n.lower(), "named": True, "text": twin(n)} for n in ("Cc", "Aa", "Bb")])
    some = rnd.sample(conf_list, min(3 if tier == "quick" else 12, len(conf_list)))
    lattice_projects += [files_of[k] for k, c in some]
    if tier == "quick":
        lattice_projects = lattice_projects[:2] + lattice_projects[5:]
    lin, lout = os.path.join(wd, "lat.in"), os.path.join(wd, "lat.out")
    write_ndjson(lin, [{"id": i, "files": fs} for i, fs in enumerate(lattice_projects)])
    vh(["produce", lin, lout])
    lat_oracle = list(read_ndjson(lout))
    out_states = 0
    ljobs = []
    for pi, (fs, odoc) in enumerate(zip(lattice_projects, lat_oracle)):
        if "panic" in odoc:
            v.violation("runner:panic " + odoc["panic"]["site"], {"part": "lattice-oracle", "files": fs})
            continue
        produced = proj.produced_list(odoc, fs)
        ppath = os.path.join(wd, "produced.ndjson")
        write_ndjson(ppath, [{"id": r["id"], "level": r["level"], "loc": r["loc"]} for r in produced] or
                     [{"id": "NONE", "level": "info", "loc": "included"}])
        og = run_tlc("Output", "Output.cfg", "c03", workers=4, env={"PRODUCED": ppath, "MAXIDS": 3 if tier == "quick" else 5},
                     cases_suffix="-out%d" % pi, timeout=1800)
        out_states += og.distinct
        if og.violated:
            v.drift.append("L1: Output.tla writer model violates the contract: %s" % og.violated)
        defs = proj.named_defs(odoc, fs)
        for oc in read_ndjson(og.cases_path):
            opts = {"level": oc["level"], "allow": oc["allow"], "sarif": oc["sarif"], "verbose": oc["verbose"]}
            ljobs.append((len(ljobs), pi, fs, produced, defs, opts, len(oc["show"]) if produced else 0))

    def lone(job):
        j, pi, fs, produced, defs, opts, nshow = job
        return proj.run_binary(fs, os.path.join(wd, "lat", "p%d" % j), opts)
    lruns = proj.par_runs(ljobs, lone)
    for (j, pi, fs, produced, defs, opts, nshow), r in zip(ljobs, lruns):
        records.append(proj.trace_record(r, produced, defs, opts))
        rec_meta.append({"part": "lattice", "project": [f["path"] for f in fs], "opts": opts, "argv": r["argv"],
                         "stdout": r["stdout"][-3000:], "stderr": r["stderr"][-500:], "exit": r["code"], "files": fs,
                         "ref_shown": nshow})
    rejects, tstates = proj.validate_traces(records, "c03")
    for idx, why in rejects:
        m = rec_meta[idx]
        v.violation("output:" + why, m)
    n_eval = n_sched + len(records)
    cov = {
        "states": l1.distinct + gen.distinct + out_states + tstates + l1o.distinct,
        "transitions": l1.generated + gen.generated + out_states + tstates + l1o.generated,
        "traces_validated_against_impl": n_eval, "exhaustive": True,
        "evaluations": n_eval, "distinct_nontrivial": len(conf_list),
        "rule": "schedules: every (configuration, analysis order) of Runner.tla over %s definitions (each named/included, lifting or "
                "not, with/without a CFG-stage report, looking up any <= %d others): %d schedules over %d distinct configurations, "
                "each replayed on the real runner via H4 and compared per definition with the production oracle; binary: %d runs "
                "validated by RunnerTrace.tla, of which %d from the option lattice (every level x allow-subset x sarif x verbose "
                "over %d projects); non-trivial = distinct configurations" %
                ("2" if tier == "quick" else "3", 2 if tier == "quick" else 1, n_sched, len(conf_list), len(records), len(ljobs),
                 len(lattice_projects)),
        "samples": [{"schedule": sched[0]}, {"schedule": sched[len(sched) // 2]}, {"binary_run": {k: rec_meta[0][k] for k in ("opts", "argv", "exit")}},
                    {"lattice_run": {k: rec_meta[-1][k] for k in ("project", "opts", "exit")}}],
        "l1": {"Runner(Orig=FALSE)": {"distinct": l1.distinct, "violated": l1.violated},
               "Runner(Orig=TRUE, the pinned commit's algorithm)": {"distinct": l1o.distinct, "violated": l1o.violated,
                                                                     "note": "expected: shows what the fix: commit repaired"}},
    }
    return v.finish(cov, assumptions=[
        "the production oracle (public stage functions into_cfg/into_ssa/get_analysis_passes with a harness-side context) defines Produced(d)",
        "stdout parsing of codespan output is trusted; keys are (severity, message, file:line:col of the first primary label)",
        "SARIF keys are (rule id, level, message, start/end line/column of every primary location)"])


def replay(path):
    doc = json.load(open(path))
    case = doc["case"]
    wd = os.path.join(vlib.BUILD, "work", "c03", "replay")
    if "files" in case:
        r = proj.run_binary(case["files"], wd, case.get("opts") or {})
        print(r["stdout"])
        print("exit:", r["code"])
    print(doc["signature"])
    return 0
