"""C11 — curve table and thresholds (Curves.tla).

TLC enumerates (curve, template name) over the documented table plus near-miss names, all constant
sizes 0..300 and the non-constant forms for Num2Bits/Bits2Num and for the LessThan range check,
each with the expected verdict; every case is rendered as a template and run through the real
pipeline with that curve. Curve names: every case variant of the three names and a list of wrong
names, through the library's parser and through the real binary's --curve option.
"""
import os, json, itertools, concurrent.futures
import vlib
from vlib import Verdict, run_tlc, vh, read_ndjson, write_ndjson, sample


def form_src(f):
    return {"const": str(f["v"]), "mul2": "2*%d" % f["v"], "param": "n", "param1": "n+1"}[f["k"]]


STYLES = ["decl", "late", "array-in-loop", "anonymous", "anonymous-in-loop-only"]


def render(case, i=0):
    """the instantiation is written in one of five ways (rotating): declared with initialiser, declared and assigned later, an
    element of a component array assigned in a loop, an anonymous component, an anonymous component in a loop with no other
    component in the template (anonymous forms need the callee's definition: a stub with that name is added)"""
    k = case["kind"]
    if k == "lessthan":
        nb = ("component nb = Num2Bits(%s);" if i % 2 == 0 else "component nb;\n  nb = Num2Bits(%s);") % form_src(case["form"])
        return ("pragma circom 2.0.0;\ntemplate T(n) {\n  signal input a;\n  signal input b;\n  signal output o;\n"
                "  component lt = LessThan(8);\n  %s\n  nb.in <== a;\n  lt.in[0] <== a;\n"
                "  lt.in[1] <== b;\n  o <== lt.out;\n}\n" % nb)
    style = STYLES[i % len(STYLES)]
    name = case["name"]
    args = "" if k == "table" else form_src(case["form"])
    call = "%s(%s)" % (name, args)
    out = "out" if k == "table" else "out[0]"
    stub = ""
    if style.startswith("anonymous"):
        if k == "table":
            stub = "template %s() {\n  signal input in;\n  signal output out;\n  out <== in;\n}\n" % name
        else:
            stub = "template %s(k) {\n  signal input in;\n  signal output out[2];\n  out[0] <== in;\n  out[1] <== in;\n}\n" % name
    body = {"decl": "  component c = %s;\n  c.in <== a;\n  o <== c.%s;\n" % (call, out),
            "late": "  component c;\n  c = %s;\n  c.in <== a;\n  o <== c.%s;\n" % (call, out),
            "array-in-loop": "  component c[2];\n  for (var i = 0; i < 2; i++) {\n    c[i] = %s;\n    c[i].in <== a;\n  }\n  o <== c[0].%s;\n" % (call, out),
            "anonymous": "  _ <== %s(a);\n  o <== a;\n" % call,
            "anonymous-in-loop-only": "  for (var i = 0; i < 1; i++) {\n    _ <== %s(a);\n  }\n  o <== a;\n" % call}[style]
    return "pragma circom 2.1.4;\n%stemplate T(n) {\n  signal input a;\n  signal output o;\n%s}\n" % (stub, body)


CODE = {"table": "CS0016", "size": "CS0010", "lessthan": "CS0014"}
PROBE = ("pragma circom 2.0.0;\ntemplate T() {\n  signal input a;\n  signal output o;\n  component c = Sign();\n"
         "  component d = BabyPbk();\n  c.in <== a;\n  d.in <== a;\n  o <== c.out + d.out;\n}\n")


def run(tier):
    v = Verdict("C11", tier, "model_checking")
    wd = os.path.join(vlib.BUILD, "work", "c11")
    os.makedirs(wd, exist_ok=True)
    vlib.build_harness()
    gen = run_tlc("Curves", "Curves.cfg", "c11", workers=4, tags=("CASE", "CURVES"))
    if gen.violated:
        raise vlib.ToolError("Curves.tla invariant violated: %s" % gen.violated)
    curves = json.loads([s for t, s in gen.prints if t == "CURVES"][0])
    cases = list(read_ndjson(gen.cases_path))
    docs = [{"id": i, "curve": c["curve"], "files": [{"path": "t.circom", "named": True, "text": render(c, i)}]}
            for i, c in enumerate(cases)]
    pin, pout = os.path.join(wd, "pipe.in"), os.path.join(wd, "pipe.out")
    write_ndjson(pin, docs)
    vh(["pipeline", pin, pout])
    nflag = 0
    for ci, (c, got) in enumerate(zip(cases, read_ndjson(pout))):
        if "panic" in got:
            v.violation("curve:panic " + got["panic"]["site"], {"case": c, "source": render(c, ci), "real": got["panic"]})
            continue
        reps = [e["r"] for e in got["events"] if e["e"] == "report" and e["r"]["id"] == CODE[c["kind"]]]
        if c["kind"] == "lessthan":
            on_a = [r for r in reps if r["primary"] and r["primary"][0]["text"] == "a"]
            on_b = [r for r in reps if r["primary"] and r["primary"][0]["text"] == "b"]
            have = len(on_a)
            if len(on_b) != 1:
                v.violation("curve:lessthan-unchecked-input-not-flagged", {"case": c, "source": render(c, ci), "reports": reps})
        else:
            have = len(reps)
        want = 1 if c["flagged"] else 0
        nflag += want
        if have != want:
            what = {"table": "bn254-specific-table", "size": "nonstrict-size-threshold", "lessthan": "lessthan-range-threshold"}[c["kind"]]
            v.violation("curve:%s %s" % (what, "missing finding" if want else "spurious finding"),
                        {"case": c, "source": render(c, ci), "expected_findings": want, "real_findings": have,
                         "reports": [r["msg"] for r in reps]})
    # ---- curve names
    names = set()
    for base in curves:
        letters = [(ch.lower(), ch.upper()) if ch.isalpha() else (ch,) for ch in base]
        for combo in itertools.product(*letters):
            names.add("".join(combo))
    wrong = ["", "BN", "BN25", "BN2540", "BN-254", "BN_254", "BLS12-381", "BLS12381", "BLS12_38", "BLS12_3811", "GOLDILOCK",
             "GOLDILOCKSS", "goldilocks ", " bn254", "SECP256K1", "ED25519", "BN128", "ALTBN128", "PALLAS", "VESTA", "bls12_381\n",
             "ΒΝ254", "bn254İ"]
    allnames = sorted(names) + wrong
    upper_ok = {n: (n.upper() if n.upper() in curves else None) for n in allnames}
    # Ref: accepted iff equal to one of the three names ignoring ASCII case
    def ref(n):
        for c in curves:
            if len(n) == len(c) and all(x == y or (x.isascii() and x.isalpha() and x.upper() == y) for x, y in zip(n, c)):
                return c
        return None
    nin, nout = os.path.join(wd, "names.in"), os.path.join(wd, "names.out")
    write_ndjson(nin, [{"name": n} for n in allnames])
    vh(["curves", nin, nout])
    disp = {"BN254": "BN254", "BLS12_381": "BLS12_381", "GOLDILOCKS": "Goldilocks"}
    for n, got in zip(allnames, read_ndjson(nout)):
        want = ref(n)
        if "panic" in got:
            v.violation("curve:name-parser panics", {"name": n, "real": got})
        elif want is None and got["ok"]:
            v.violation("curve:wrong name accepted", {"name": n, "real": got})
        elif want is not None and not got["ok"]:
            v.violation("curve:valid spelling rejected", {"name": n, "expected": want})
        elif want is not None:
            if got["prime"] != curves[want]["prime"] or got["bits"] != curves[want]["bits"] or got["curve"] != disp[want]:
                v.violation("curve:wrong prime for curve", {"name": n, "expected": curves[want], "real": got})
    # through the real binary (clap): a sample of spellings in the quick tier, all in the thorough tier
    probe = os.path.join(wd, "probe.circom")
    open(probe, "w").write(PROBE)
    cli_names = allnames if tier == "thorough" else sorted(set(sample(sorted(names), 150) + wrong + list(curves) + [c.lower() for c in curves]))
    cli_names = [n for n in cli_names if "\n" not in n]
    expect_cnt = {"BN254": 0, "BLS12_381": 1, "GOLDILOCKS": 2}

    def one(n):
        return n, vlib.run_real(["--curve", n, "-v", probe], timeout=30)
    with concurrent.futures.ThreadPoolExecutor(8) as ex:
        for n, r in ex.map(one, cli_names):
            want = ref(n)
            cnt = r["out"].count("warning[CS0016]")
            if r["code"] not in (0, 1, 2) or r["timeout"]:
                v.violation("curve:cli crashes on curve name", {"name": n, "code": r["code"], "stderr": r["err"][-300:]})
            elif want is None and r["code"] != 2:
                v.violation("curve:wrong name accepted", {"name": n, "via": "cli", "code": r["code"]})
            elif want is not None and (r["code"] == 2 or cnt != expect_cnt[want]):
                v.violation("curve:valid spelling rejected" if r["code"] == 2 else "curve:cli selects wrong curve",
                            {"name": n, "via": "cli", "code": r["code"], "cs0016": cnt, "expected": want})
    n_eval = len(cases) + len(allnames) + len(cli_names)
    cov = {"states": gen.distinct, "transitions": gen.generated, "traces_validated_against_impl": n_eval, "exhaustive": True,
           "evaluations": n_eval, "distinct_nontrivial": nflag,
           "rule": "every (curve, name) over the 26 documented names + %d near-miss names; every constant size 0..300, 2*m forms and "
                   "parameter forms for Num2Bits/Bits2Num and for the LessThan range check, x 3 curves (%d TLC-generated cases, "
                   "non-trivial = a finding is expected); %d curve-name spellings through the library parser, %d through the real "
                   "binary" % (len(set(c["name"] for c in cases if c["kind"] == "table")) - 26, len(cases), len(allnames), len(cli_names)),
           "samples": sample(cases, 6)}
    return v.finish(cov, assumptions=["doc/analysis_passes.md's table with Circomlib's spelling (`_Strict` for Bits2Point/Point2Bits) is the authority",
                                      "the threshold k <= bits-2 is derived from 2^k-1 <= p/2 for non-Mersenne primes (lemma TLC-checked on small primes)"])


def replay(path):
    doc = json.load(open(path))["case"]
    print(json.dumps(doc, indent=1))
    return 0
