"""C05 — comments are transparent. See DESIGN.md §5 C05.

A. TLC enumerates every string up to N over {/,*,n,a,e,q} with Ref's verdict (Comments.tla);
   each is replayed on the real `preprocess` (hook H1) and compared byte by byte.
B. Random longer strings over a larger alphabet are run on the real code first; the recorded
   (input, output) pairs are validated by TLC against Ref (CommentsTrace.tla).
C. Every string Ref classifies as one complete comment is spliced into the token gaps of the
   base corpus; the whole in-process pipeline must give the same reports as for the blanked
   variant. Unclosed shapes must give an error report, never a clean result.
L1. TLC checks Imp (the transcription of `preprocess`) against Ref on the same scope; an L1
   failure is DRIFT unless the real code reproduces it (then A reports it).
"""
import os, re, json, random
import vlib
from vlib import Verdict, run_tlc, vh, read_ndjson, write_ndjson, sample

SYM = {"/": "/", "*": "*", "n": "\n", "a": "a", "e": "é", "q": '"', "r": "\r", "t": "\t", "w": "\U0001F600"}
INV = {v: k for k, v in SYM.items()}
INV[" "] = "_"


def render(s):
    return "".join(SYM[c] for c in s)


def expected_bytes(out):
    """Ref's output symbols -> list of allowed byte sets, one per output byte."""
    res = []
    for c in out:
        if c == "_":
            res.append(None)  # blank: ' ' (or the original newline)
        else:
            for b in SYM[c].encode():
                res.append(b)
    return res


def compare(case, got, text):
    """None if the real output conforms to Ref, else the name of the failed clause."""
    if "panic" in got:
        return "panic " + got["panic"]["site"]
    if case["err"]:
        if not got.get("err"):
            return "unclosed-comment-not-reported"
        if got.get("category") != "error":
            return "unclosed-comment-not-error-level"
        return None
    if got.get("err"):
        return "spurious-unclosed-comment-error"
    exp = expected_bytes(case["out"])
    real = got["out"].encode()
    src = text.encode()
    if len(real) != len(src) or len(exp) != len(src):
        return "length-not-preserved"
    for k, want in enumerate(exp):
        if want is None:
            if not (real[k] == 0x20 or (real[k] == 0x0A and src[k] == 0x0A)):
                return "comment-byte-not-blanked"
        elif real[k] != want:
            return "code-byte-changed" if src[k] == want else "ref-mismatch"
    return None


TOKEN = re.compile(r"""\s+|[A-Za-z_$][A-Za-z0-9_$]*|0x[0-9A-Fa-f]+|[0-9]+|"[^"\n]*"|<==|==>|<--|-->|===|\*\*=|<<=|>>=|&&|\|\||==|!=|<=|>=|<<|>>|\*\*|\+=|-=|\*=|/=|\\=|%=|\^=|&=|\|=|\+\+|--|.""", re.S)


def gaps(text):
    """Byte-wise char offsets between tokens (including 0 and len)."""
    pos, out = 0, [0]
    for m in TOKEN.finditer(text):
        if m.start() != pos:
            raise vlib.ToolError("tokenizer gap")
        pos = m.end()
        if not m.group(0).isspace():
            out.append(m.start())
            out.append(m.end())
    out.append(len(text))
    return sorted(set(out))


def norm_reports(doc, shift_from=None, shift_by=0):
    """Observable of a pipeline run: sorted list of (id, cat, msg, primary ranges, secondary ranges)."""
    if "panic" in doc:
        return ("panic", doc["panic"]["site"])
    reps = list(doc.get("parse", [])) + [e["r"] for e in doc.get("events", []) if e["e"] == "report"]
    out = []
    for r in reps:
        out.append((r["id"], r["cat"], r["msg"], tuple((l["s"], l["e"]) for l in r["primary"]),
                    tuple(sorted((l["s"], l["e"]) for l in r["secondary"]))))
    return sorted(out)


def run(tier):
    v = Verdict("C05", tier, "model_checking")
    N = 6 if tier == "quick" else 7
    wd = os.path.join(vlib.BUILD, "work", "c05")
    os.makedirs(wd, exist_ok=True)
    vlib.build_harness()
    cfgdir = vlib.SPEC

    def cfg(name, inv, n):
        p = os.path.join(wd, name)
        with open(p, "w") as f:
            f.write('SPECIFICATION Spec\nCONSTANTS\n  N = %d\n  Alphabet = {"/", "*", "n", "a", "e", "q"}\n' % n)
            for i in inv:
                f.write("INVARIANT %s\n" % i)
            f.write("CHECK_DEADLOCK FALSE\n")
        return p

    # ---- L1: Imp |= Ref on the scope (N+1 in the thorough tier: L1 only)
    l1 = run_tlc("Comments", cfg("l1.cfg", ["L1Agree", "L1RefSane"], N + (1 if tier == "thorough" else 0)), "c05",
                 workers=8, cases_suffix="-l1", timeout=1500)
    if l1.violated:
        v.drift.append("L1: Imp model disagrees with Ref: %s (see %s)" % (l1.violated, l1.log_path))

    # ---- A: exhaustive replay
    gen = run_tlc("Comments", cfg("gen.cfg", ["Emit"], N), "c05", workers=8, timeout=1500)
    cases_path = gen.cases_path
    out_path = os.path.join(wd, "strip.out")
    vh(["strip", cases_path, out_path])
    nA = nontrivial = 0
    shapes, unclosed, eofline = [], [], []
    for case, got in zip(read_ndjson(cases_path), read_ndjson(out_path)):
        nA += 1
        text = render(case["s"])
        if "_" in case["out"] or case["err"]:
            nontrivial += 1
        why = compare(case, got, text)
        if why:
            v.violation("strip:" + why, {"part": "A", "input": text, "symbols": case["s"], "ref": case, "real": got})
        if case["comment"]:
            (shapes if case["mode"] == "code" else eofline).append(case["s"])
        elif case["err"] and case["s"][:2] == ["/", "*"] and case["errAt"] == 0:
            unclosed.append(case["s"])

    # ---- B: random longer strings, validated by TLC (trace validation)
    rnd = random.Random(vlib.seed())
    nB = 20000 if tier == "quick" else 200000
    alpha = ["/", "*", "n", "a", "e", "q", "r", "t", "w"]
    weights = [6, 6, 3, 2, 1, 1, 1, 1, 1]
    recs = []
    for _ in range(nB):
        L = rnd.randint(8, 40)
        recs.append({"s": rnd.choices(alpha, weights, k=L)})
    rin, rout = os.path.join(wd, "rand.in"), os.path.join(wd, "rand.out")
    write_ndjson(rin, recs)
    vh(["strip", rin, rout])
    trace = []
    for rec, got in zip(recs, read_ndjson(rout)):
        if "panic" in got:
            v.violation("strip:panic " + got["panic"]["site"], {"part": "B", "input": render(rec["s"]), "real": got})
            trace.append({"s": rec["s"], "out": [], "err": True})
            continue
        if got.get("err"):
            trace.append({"s": rec["s"], "out": [], "err": True})
            continue
        syms = []
        for ch in got["out"]:
            k = INV.get(ch, "?")
            if k == "e":
                syms += ["e1", "e2"]
            elif k == "w":
                syms += ["w1", "w2", "w3", "w4"]
            else:
                syms.append(k)
        trace.append({"s": rec["s"], "out": syms, "err": False})
    tpath = os.path.join(wd, "rand.trace.ndjson")
    # chunks keep the JSON deserialiser and the recursive Ref within comfortable memory
    nrej, states_B = 0, 0
    CH = 20000
    for off in range(0, len(trace), CH):
        write_ndjson(tpath, trace[off:off + CH])
        tr = run_tlc("CommentsTrace", "CommentsTrace.cfg", "c05", workers=1, env={"TRACE": tpath}, tags=("REJECT",),
                     cases_suffix="-trace", timeout=1500)
        states_B += tr.distinct
        if tr.postcondition_failed or tr.distinct != len(trace[off:off + CH]) + 1:
            raise vlib.ToolError("CommentsTrace did not consume the whole trace")
        for tag, sdoc in tr.prints:
            idx = json.loads(sdoc)["idx"] - 1 + off
            nrej += 1
            v.violation("strip:trace-rejected", {"part": "B", "input": render(trace[idx]["s"]), "symbols": trace[idx]["s"],
                                                 "recorded": trace[idx]})

    # ---- C: splice every complete comment shape into token gaps of the base corpus
    base = []
    cdir = os.path.join(vlib.ROOT, "corpus", "base")
    for f in sorted(os.listdir(cdir)):
        if f.endswith(".circom"):
            base.append((f, open(os.path.join(cdir, f)).read()))
    rnd2 = random.Random(vlib.seed() + 1)
    jobs = []  # (kind, prog, gap, shape)
    per_shape = 3 if tier == "quick" else 12
    for name, text in base:
        gs = gaps(text)
        # a comment spliced directly after a `/` token would glue with it (`/` + `//` = `///`): not a token gap any more
        inner = [g for g in gs if 0 < g < len(text) and text[g - 1] != "/"]
        # small shapes at every gap; all shapes at a few random gaps
        for sh in shapes:
            where = inner if len(sh) <= (4 if tier == "quick" else 5) and name in ("p1.circom", "p4.circom") else rnd2.sample(inner, min(per_shape, len(inner)))
            for g in where:
                jobs.append(("closed", name, g, sh))
        for sh in eofline:
            jobs.append(("closed", name, len(text), sh))
        for sh in unclosed:
            for g in rnd2.sample(inner, min(2 if tier == "quick" else 6, len(inner))) + [0]:
                jobs.append(("unclosed", name, g, sh))
    texts = dict(base)
    cin, cout = os.path.join(wd, "splice.in"), os.path.join(wd, "splice.out")
    docs = []
    for i, (kind, name, g, sh) in enumerate(jobs):
        t = texts[name]
        c = render(sh)
        # separate from neighbouring tokens only by the comment itself
        docs.append({"id": i, "files": [{"path": name, "named": True, "text": t[:g] + c + t[g:]}]})
        if kind == "closed":
            blank = "".join(ch if ch == "\n" else " " * len(ch.encode()) for ch in c)
            docs.append({"id": -i - 1, "files": [{"path": name, "named": True, "text": t[:g] + blank + t[g:]}]})
    write_ndjson(cin, docs)
    vh(["pipeline", cin, cout], timeout=3000)
    res = {d["id"]: d for d in read_ndjson(cout)}
    nC = 0
    for i, (kind, name, g, sh) in enumerate(jobs):
        nC += 1
        a = norm_reports(res[i])
        if kind == "closed":
            b = norm_reports(res[-i - 1])
            if a != b:
                # the blanked variant may itself be unparsable when a comment glued two tokens; then both fail alike
                v.violation("splice:reports-differ-from-blanked", {
                    "part": "C", "program": name, "offset": g, "comment": render(sh),
                    "commented": [list(x) for x in a][:8] if isinstance(a, list) else a,
                    "blanked": [list(x) for x in b][:8] if isinstance(b, list) else b})
        else:
            ok = isinstance(a, list) and any(r[1] == "error" for r in a)
            if not ok:
                v.violation("splice:unclosed-comment-silently-accepted",
                            {"part": "C", "program": name, "offset": g, "comment": render(sh),
                             "reports": [list(x) for x in a][:8] if isinstance(a, list) else a})

    cov = {
        "states": gen.distinct + l1.distinct + states_B,
        "transitions": gen.generated + l1.generated + states_B,
        "traces_validated_against_impl": nA + nB + nC,
        "exhaustive": True,
        "evaluations": nA + nB + nC,
        "distinct_nontrivial": nontrivial,
        "rule": "A: every string of length <= %d over {/,*,newline,a,e-acute,quote} (TLC-enumerated, %d strings; non-trivial = "
                "Ref blanks at least one byte or reports an unclosed comment); B: %d random strings of length 8..40 over that "
                "alphabet plus CR, tab and a 4-byte char, outputs validated by TLC against Ref; C: %d complete comment shapes, "
                "%d EOF line comments and %d unclosed shapes spliced into token gaps of %d base programs (%d pipeline "
                "comparisons)" % (N, nA, nB, len(shapes), len(eofline), len(unclosed), len(base), nC),
        "samples": [{"input": render(s), "class": "complete comment"} for s in sample(shapes, 4)] +
                   [{"input": render(s), "class": "unclosed"} for s in sample(unclosed, 2)] +
                   [{"input": render(r["s"]), "class": "random"} for r in recs[:2]],
        "l1": {"module": "Comments", "invariants": ["L1Agree", "L1RefSane"], "distinct_states": l1.distinct,
               "violated": l1.violated},
        "trace_validation": {"module": "CommentsTrace", "records": nB, "rejected": nrej},
    }
    return v.finish(cov, assumptions=[
        "string literals are not special to the stripper (as in Circom itself): a comment opener inside a string starts a comment",
        "a newline inside a comment may be kept or blanked",
        "tokenizer used to find token gaps in the base programs is trusted (gaps only add white space between tokens)"])


def replay(path):
    doc = json.load(open(path))
    case = doc["case"]
    vlib.build_harness()
    wd = os.path.join(vlib.BUILD, "work", "c05")
    os.makedirs(wd, exist_ok=True)
    if case.get("part") in ("A", "B"):
        write_ndjson(os.path.join(wd, "replay.in"), [{"text": case["input"]}])
        vh(["strip", os.path.join(wd, "replay.in"), os.path.join(wd, "replay.out")])
        print(open(os.path.join(wd, "replay.out")).read())
    else:
        print(json.dumps(case, indent=1))
    return 0
