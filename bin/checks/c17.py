"""C17 — findings are a function of the sources: deterministic, order-independent.

L1  Runner.tla: OrderIndependent for every configuration and analysis order (TLC).
A   determinism: the real binary is run K times (fresh processes = fresh hash seeds) on each project;
    the per-definition multisets of displayed diagnostics must be equal (TransformTrace.tla).
B   transformations (Transforms.tla enumerates them): every permutation of the definitions, every
    split over two named files in both orders, every subset of unrelated extra definitions
    (one with a name that has a base name as prefix, one that fails to lift, one included-only); the
    normalised findings (id, severity, message, text under each label) of every base definition must
    be those of the base variant. In-process (recording writer), two runs per variant.
C   every analysis order of the base project replayed through hook H4.
"""
import os, json, random, collections, itertools
import vlib, cli, proj
from vlib import Verdict, run_tlc, vh, read_ndjson, write_ndjson, sample

DEFS = {
    "Aa": "template Aa(n) {\n  signal input a;\n  signal output o;\n  var s = 1;\n  { var s = 2; }\n  component c = Bb(n);\n  c.a <== a;\n  o <-- a + fc(n);\n}\n",
    "Bb": "template Bb(n) {\n  signal input a;\n  signal output o;\n  signal output unused;\n  var k = n;\n  { var k = 3; }\n  if (k == k) { k = 1; }\n  unused <== a;\n  o <== a * k;\n}\n",
    "fc": "function fc(x) {\n  var r = x;\n  for (var i = 0; i < 2; i++) {\n    var r = i;\n  }\n  return r + 1;\n}\n",
    "Dd": "template Dd() {\n  signal input a;\n  signal output o;\n  component c[2];\n  c[0] = Bb(1);\n  c[1] = Bb(2);\n  c[0].a <== a;\n  c[1].a <== a;\n  o <== c[0].o + c[1].o + c[0].unused;\n}\n",
}
EXTRA = {
    "Aa2": "template Aa2() {\n  signal input a;\n  signal output o;\n  o <-- a * a;\n}\n",
    "fy": "function fy(p, p) {\n  return p;\n}\n",
    "Xx": "template Xx(m) {\n  signal input a;\n  signal output o;\n  var z = m;\n  { var z = 0; }\n  o <== a;\n}\n",
}
HEAD = "pragma circom 2.0.0;\n"
# many unrelated templates that instantiate each other (caches and look-ups are exercised well beyond a handful of definitions)
NBULK = 90
BULK = HEAD + "".join(
    "template Bk%d() {\n  signal input a;\n  signal output o;\n  signal output spare;\n%s  spare <-- a + %d;\n}\n" %
    (i, ("  component c = Bk%d();\n  c.a <== a;\n  o <== c.o;\n" % (i + 1)) if i + 1 < NBULK else "  o <== a;\n", i) for i in range(NBULK))


def render(var, base_names):
    """variant -> files"""
    order = list(var["perm"])
    extras = sorted(var["extras"])
    second = set(var["second"])
    f1 = [d for d in order if d not in second]
    f2 = [d for d in order if d in second]
    ex = "".join(EXTRA[e] for e in extras)
    t1 = HEAD + (ex if var["extrasFirst"] else "") + "".join(DEFS[d] for d in f1) + ("" if var["extrasFirst"] else ex)
    link = var.get("link", "none")
    if f2 and link == "oneIncludesTwo":
        t1 = t1.replace(HEAD, HEAD + 'include "two.circom";\n', 1)
    files = [{"path": "one.circom", "named": True, "text": t1}]
    if f2:
        files.append({"path": "two.circom", "named": True,
                      "text": HEAD + ('include "one.circom";\n' if link == "twoIncludesOne" else "") + "".join(DEFS[d] for d in f2)})
    if var["swapFiles"]:
        files.reverse()
    if var.get("bulk"):
        files.append({"path": "bulk.circom", "named": True, "text": BULK})
    return files


def norm_by_def(doc, names):
    """in-process recorder events -> {def: [normalised finding strings]}"""
    cur, out = None, {n: [] for n in names}
    for e in doc.get("events", []):
        if e["e"] == "msg":
            m = cli.ANALYZING.match(e["text"])
            if m:
                cur = m.group(2)
        elif e["e"] == "report" and cur in out:
            r = e["r"]
            labels = sorted((l["text"] or "?") + "~" + l["msg"] for l in r["primary"]) + sorted("2:" + (l["text"] or "?") for l in r["secondary"])
            out[cur].append("%s|%s|%s|%s" % (r["id"], r["cat"], r["msg"], ";".join(labels)))
    return out


def run(tier):
    v = Verdict("C17", tier, "model_checking")
    wd = os.path.join(vlib.BUILD, "work", "c17")
    os.makedirs(wd, exist_ok=True)
    vlib.build_harness()
    rnd = random.Random(vlib.seed())
    base = ["Aa", "Bb", "fc"] if tier == "quick" else ["Aa", "Bb", "fc", "Dd"]
    # L1
    c = os.path.join(wd, "l1.cfg")
    open(c, "w").write('SPECIFICATION Spec\nCONSTANTS\n  Defs = {"A", "B"}\n  Orig = FALSE\n  MaxLooks = 2\nVIEW view\n'
                       'INVARIANT OrderIndependent\nCHECK_DEADLOCK FALSE\n')
    l1 = run_tlc("Runner", c, "c17", workers=8, cases_suffix="-l1")
    if l1.violated:
        v.drift.append("L1: Runner.tla violates OrderIndependent")
    # B: variants
    c = os.path.join(wd, "tr.cfg")
    open(c, "w").write("SPECIFICATION Spec\nCONSTANTS\n  Base = {%s}\n  Extras = {%s}\nINVARIANT Emit\nCHECK_DEADLOCK FALSE\n" %
                       (", ".join('"%s"' % b for b in base), ", ".join('"%s"' % e for e in EXTRA)))
    gen = run_tlc("Transforms", c, "c17", workers=4)
    variants = list(read_ndjson(gen.cases_path))
    # a split into two files only makes sense if the second file is non-empty; swapFiles without a second file is the same variant
    variants = [x for x in variants if x["second"] or not x["swapFiles"]]
    vcap = 900 if tier == "quick" else 8000
    if len(variants) > vcap:
        variants = rnd.sample(variants, vcap)
    base_variant = {"perm": base, "extras": [], "second": [], "swapFiles": False, "extrasFirst": False, "link": "none", "bulk": False}
    allv = [base_variant] + variants
    docs = []
    for i, var in enumerate(allv):
        fs = render(var, base)
        docs.append({"id": 2 * i, "files": fs})
        docs.append({"id": 2 * i + 1, "files": fs})
    pin, pout = os.path.join(wd, "tr.in"), os.path.join(wd, "tr.out")
    write_ndjson(pin, docs)
    vh(["pipeline", pin, pout], timeout=3000)
    res = {d["id"]: d for d in read_ndjson(pout)}
    for i in range(len(allv)):
        for j in (2 * i, 2 * i + 1):
            if "panic" in res[j]:
                v.violation("determinism:panic " + res[j]["panic"]["site"], {"part": "B", "variant": allv[i], "files": docs[j]["files"]})
    base_norm = norm_by_def(res[0], base)
    records, meta = [], []
    for i in range(len(allv)):
        records.append({"defs": base, "variants": [base_norm, norm_by_def(res[2 * i], base), norm_by_def(res[2 * i + 1], base)]})
        meta.append({"part": "B", "variant": allv[i], "files": docs[2 * i]["files"]})
    # B2: two source directories whose files include the same spelling, which denotes a different file in each directory;
    #     the named files in both orders (the findings of every definition must not depend on the order)
    def two_dirs(order):
        lib = lambda d, extra: HEAD + "template Lib%s() {\n  signal input a;\n  signal output o;\n  signal output %s;\n  o <== a;\n  %s <-- a + 1;\n}\n" % (d, extra, extra)
        main = lambda d: HEAD + 'include "lib.circom";\ntemplate Use%s() {\n  signal input a;\n  signal output o;\n  component c = Lib%s();\n  c.a <== a;\n  o <== c.o;\n}\n' % (d, d)
        fs = [{"path": "da/main.circom", "named": True, "text": main("A")}, {"path": "db/main.circom", "named": True, "text": main("B")}]
        if order:
            fs.reverse()
        return fs + [{"path": "da/lib.circom", "named": False, "text": lib("A", "auxa")}, {"path": "db/lib.circom", "named": False, "text": lib("B", "auxb")}]
    write_ndjson(pin, [{"id": i, "files": two_dirs(i % 2)} for i in range(4)])
    vh(["pipeline", pin, pout], timeout=600)
    tdocs = list(read_ndjson(pout))
    tnames = ["UseA", "UseB"]
    if any("panic" in d for d in tdocs):
        v.violation("determinism:panic", {"part": "B", "files": two_dirs(0)})
    else:
        records.append({"defs": tnames, "variants": [norm_by_def(d, tnames) for d in tdocs]})
        meta.append({"part": "B", "variant": "two directories, one include spelling, both orders of the named files", "files": two_dirs(1)})
    # C: every analysis order of the base project through H4
    fs = render(base_variant, base)
    kinds = {"Aa": True, "Bb": True, "fc": False, "Dd": True}
    orders = list(itertools.permutations(base))
    write_ndjson(pin, [{"id": i, "files": fs, "order": [[kinds[d], d] for d in o]} for i, o in enumerate(orders)])
    vh(["pipeline", pin, pout])
    ods = list(read_ndjson(pout))
    records.append({"defs": base, "variants": [base_norm] + [norm_by_def(d, base) for d in ods]})
    meta.append({"part": "C", "orders": [list(o) for o in orders], "files": fs})
    # A: the real binary, K fresh processes per project
    K = 5 if tier == "quick" else 30
    nproj = 12 if tier == "quick" else 40
    projs = [render(x, base) for x in [base_variant, dict(base_variant, bulk=True)] + rnd.sample(variants, nproj - 2)]
    projs.append([{"path": "bulk.circom", "named": True, "text": BULK}])
    # definitions that read a variable before it is defined in two places: only one error is reported; which one must not vary
    for body in ("  if (!(6 >> n)) {\n    var a = a;\n  }\n  var a;\n  return a - a;\n",
                 "  if (n == 1) {\n    var b = c + 1;\n    var c = 1;\n  } else {\n    var d = e + 2;\n    var e = 2;\n  }\n  return n;\n",
                 "  for (var i = 0; i < 2; i++) {\n    if (m == i) {\n      var u = w;\n      var w = 1;\n    }\n    var x = y;\n    var y = 2;\n  }\n  return n;\n"):
        projs.append([{"path": "ubd.circom", "named": True, "text": HEAD + "function f(n, m) {\n" + body + "}\n"}])
    # the same name defined in two named files of a project with a main component: which of the two definitions is called the
    # duplicate (ProgramArchive::new merges the files in map order) must not vary either
    DUPA = "template A() {\n  signal input x;\n  signal output y;\n  y <== x;\n}\ntemplate B() {\n  signal input x;\n  signal output y;\n  y <== x;\n}\n"
    DUPB = DUPA.replace("y <== x;", "y <== x * x;")
    for mainfile in (0, 1):
        projs.append([{"path": "ubd.circom", "named": True, "text": HEAD + DUPA + ("component main = A();\n" if mainfile == 0 else "")},
                      {"path": "dup2.circom", "named": True, "text": HEAD + DUPB + ("component main = A();\n" if mainfile == 1 else "")}])
    # the small definitions with two candidate errors are run more often: a choice that depends on a hash order shows up rarely
    jobs = [(pi, k) for pi in range(len(projs)) for k in range(24 if projs[pi][0]["path"] == "ubd.circom" else K)]

    def one(job):
        pi, k = job
        return proj.run_binary(projs[pi], os.path.join(wd, "bin", "p%d_%d" % (pi, k)), {"level": "info", "verbose": True})
    runs = proj.par_runs(jobs, one)
    byproj = collections.defaultdict(list)
    for (pi, k), r in zip(jobs, runs):
        cur, out = "parse", collections.defaultdict(list)
        for e in r["events"]:
            if e["e"] == "analyzing":
                cur = e["name"]
            elif e["e"] == "diag":
                out[cur].append("%s|%s" % (e["id"], proj.diag_key(e)))
            elif e["e"] == "summary":
                out["__summary"].append(str(e["n"]))
        out["__exit"].append(str(r["code"]))
        byproj[pi].append(out)
    for pi, outs in byproj.items():
        names = sorted(set(k for o in outs for k in o))
        records.append({"defs": names, "variants": [{n: o.get(n, []) for n in names} for o in outs]})
        meta.append({"part": "A", "files": projs[pi], "runs": len(outs)})
    # validate with TLC
    tpath = os.path.join(wd, "trace.ndjson")
    rej, states = [], 0
    CH = 300
    for off in range(0, len(records), CH):
        write_ndjson(tpath, records[off:off + CH])
        tr = run_tlc("TransformTrace", "TransformTrace.cfg", "c17", workers=1, env={"TRACE": tpath}, tags=("REJECT",),
                     cases_suffix="-trace", timeout=1800)
        states += tr.distinct
        if tr.postcondition_failed or tr.distinct != len(records[off:off + CH]) + 1:
            raise vlib.ToolError("TransformTrace did not consume the whole trace")
        for tag, s in tr.prints:
            d = json.loads(s)
            rej.append((d["idx"] - 1 + off, d))
    for idx, d in rej:
        m = dict(meta[idx])
        rec = records[idx]
        dn = rec["defs"][d["def"] - 1]
        m["definition"] = dn
        m["reference_findings"] = rec["variants"][0][dn]
        m["differing_findings"] = rec["variants"][d["variant"] - 1][dn]
        sig = {"A": "determinism:repeated runs differ", "B": "determinism:findings change under a transformation",
               "C": "determinism:findings depend on the analysis order"}[m["part"]]
        v.violation(sig, m)
    n_eval = 2 * len(allv) + len(orders) + len(jobs)
    cov = {"states": l1.distinct + gen.distinct + states, "transitions": l1.generated + gen.generated + states,
           "traces_validated_against_impl": n_eval, "exhaustive": False, "evaluations": n_eval,
           "distinct_nontrivial": len(allv),
           "rule": "B: %d variants of the base project %s (all permutations x file splits in both orders x subsets of 3 unrelated extras "
                   "x extras first/last%s), two in-process runs each; C: all %d analysis orders via H4; A: %d projects x %d fresh "
                   "processes of the real binary; non-trivial = distinct variants" %
                   (len(allv), base, ", sampled", len(orders), len(projs), K),
           "samples": [allv[1], allv[len(allv) // 2], {"files": [f["path"] for f in projs[1]]}]}
    return v.finish(cov, assumptions=["findings are normalised to (id, severity, message, text under each label) for transformations",
                                      "hash-map orders are sampled by fresh processes / fresh maps (not enumerable from outside); every "
                                      "analysis order of the definitions is enumerated through hook H4"])


def replay(path):
    doc = json.load(open(path))
    case = doc["case"]
    wd = os.path.join(vlib.BUILD, "work", "c17", "replay")
    for k in range(3):
        r = proj.run_binary(case["files"], wd, {"level": "info", "verbose": True})
        print("run", k, "exit", r["code"], [e.get("id") for e in r["events"] if e["e"] == "diag"])
    return 0
