"""C18 — tuples and anonymous components are desugared completely and faithfully (Desugar.tla).

TLC enumerates every use (sugar form x position x template/function x inside/outside a loop) with
Ref's verdict class. For each use the harness renders the sugared definition and its hand-written
expansion, and checks on the real code:
  (a) after parse_files no definition contains a tuple / anonymous component / multi-substitution
      (walk of the public AST, harness command astcheck);
  (b) functions containing sugar are rejected with an error;
  (c) templates: either an error is reported and the template dropped, or the findings of the whole
      in-process pipeline equal those of the expansion (ids, normalised messages, label counts);
  (d) no panic anywhere (parse, lifting, passes).
"""
import os, re, json, collections
import vlib, proj
from vlib import Verdict, run_tlc, vh, read_ndjson, write_ndjson, sample

LIB = """template A() {\n  signal input in;\n  signal output out;\n  out <== in * in;\n}
template A2() {\n  signal input sx;\n  signal input dy;\n  signal output out;\n  out <== sx * dy;\n}
template A22() {\n  signal input sx;\n  signal input dy;\n  signal output out;\n  signal output aux;\n  out <== sx * dy;\n  aux <== sx + dy;\n}
template B(k) {\n  signal input in;\n  signal output out;\n  out <== in * k;\n}
template Z() {\n  signal output out;\n  out <== 3;\n}
function g(x) {\n  return x + 1;\n}
"""

# form -> (sugar expression, expansion declarations with component name H, replacement expression)
def anon_form(form, H, idx=""):
    h = H + idx
    if form == "anon1":
        return "A()(in)", ["%s = A();" % h, "%s.in <== in;" % h], "%s.out" % h
    if form == "anon2":
        return "A2()(in, in2)", ["%s = A2();" % h, "%s.sx <== in;" % h, "%s.dy <== in2;" % h], "%s.out" % h
    if form == "anon_named":
        return "A2()(sx <== in, dy <== in2)", ["%s = A2();" % h, "%s.sx <== in;" % h, "%s.dy <== in2;" % h], "%s.out" % h
    if form == "anon_named_rev":
        return "A2()(dy <== in2, sx <== in)", ["%s = A2();" % h, "%s.dy <== in2;" % h, "%s.sx <== in;" % h], "%s.out" % h
    if form == "anon_mixed_ops":
        return "A2()(sx <-- in, dy <== in2)", ["%s = A2();" % h, "%s.sx <-- in;" % h, "%s.dy <== in2;" % h], "%s.out" % h
    if form == "anon_mixed_ops_rev":
        # named inputs written in the reverse of the declaration order, each with its own operator
        return "A2()(dy <== in2, sx <-- in)", ["%s = A2();" % h, "%s.sx <-- in;" % h, "%s.dy <== in2;" % h], "%s.out" % h
    if form == "anon_param":
        return "B(2)(in)", ["%s = B(2);" % h, "%s.in <== in;" % h], "%s.out" % h
    if form == "anon0":
        return "Z()()", ["%s = Z();" % h], "%s.out" % h
    if form == "anon_parallel":
        return "parallel A()(in)", ["%s = parallel A();" % h, "%s.in <== in;" % h], "%s.out" % h
    if form == "tuple2":
        return "(in, in2)", None, None
    if form == "tuple3":
        return "(in, in2, in)", None, None
    raise ValueError(form)


def position_stmt(pos, E):
    """statement text with the expression E at the position; returns (statements, needs) """
    return {
        "rhs_constrain": ["o <== %s;" % E],
        "rhs_assign": ["o <-- %s;" % E],
        "decl_init": ["signal output od <== %s;" % E],
        "var_init": ["var v = %s;" % E, "o <== in + v;"],
        "var_assign": ["var v;", "v = %s;" % E, "o <== in + v;"],
        "arith": ["o <== %s + 1;" % E],
        "cond": ["if (%s == 1) {" % E, "  o <== in;", "} else {", "  o <== in2;", "}"],
        "index_rhs": ["o <== arr[%s];" % E],
        "index_lhs": ["oa[%s] <== in;" % E],
        "assert_arg": ["assert(%s == 1);" % E, "o <== in;"],
        "log_arg": ["log(%s);" % E, "o <== in;"],
        "return_arg": ["return %s;" % E],
        "call_arg": ["o <== g(%s);" % E],
        "template_param": ["component cb = B(%s);" % E, "cb.in <== in;", "o <== cb.out;"],
        "nested_input": ["o <== A()(%s);" % E],
        "ceq_side": ["%s === in;" % E, "o <== in;"],
        "ternary_arm": ["o <-- in == 1 ? %s : in2;" % E],
        "array_literal": ["var w[2] = [%s, 1];" % E, "o <== in + w[0];"],
        "dimension": ["var w[%s];" % E, "o <== in;"],
        "while_cond": ["var i = 0;", "while (%s == i) {" % E, "  i += 1;", "}", "o <== in;"],
        "statement": ["%s;" % E, "o <== in;"],
    }[pos]


def tuple_stmt(form):
    """-> (sugared statements, expanded statements or None)"""
    return {
        "t_pair": (["(o, o2) <== (in, in2);"], ["o <== in;", "o2 <== in2;"]),
        "t_skip_first": (["(_, o2) <== (in, in2);", "o <== in;"], ["o2 <== in2;", "o <== in;"]),
        "t_skip_last": (["(o, _) <== (in, in2);", "o2 <== in;"], ["o <== in;", "o2 <== in;"]),
        "t_triple": (["(o, o2, o3) <== (in, in2, in * in2);"], ["o <== in;", "o2 <== in2;", "o3 <== in * in2;"]),
        "t_anon_outputs": (["(o, o2) <== A22()(in, in2);"], ["component h = A22();", "h.sx <== in;", "h.dy <== in2;", "o <== h.out;", "o2 <== h.aux;"]),
        "t_anon_outputs_skip": (["(_, o2) <== A22()(in, in2);", "o <== in;"],
                                ["component h = A22();", "h.sx <== in;", "h.dy <== in2;", "o2 <== h.aux;", "o <== in;"]),
        # the value of an anonymous call discarded as a whole: the component and its input constraints still exist
        "t_discard_anon": (["_ <== A()(in);", "o <== in;"], ["component h = A();", "h.in <== in;", "o <== in;"]),
        "t_discard_anon_paren": (["(_) <== A2()(in, in2);", "o <== in;"], ["component h = A2();", "h.sx <== in;", "h.dy <== in2;", "o <== in;"]),
        "t_discard_anon_assign": (["_ <-- A()(in);", "o <== in;"], ["component h = A();", "h.in <== in;", "o <== in;"]),
        "t_length_mismatch": (["(o, o2) <== (in, in2, in);"], None),
        "t_nested": (["((o, o2), o3) <== ((in, in2), in);"], ["o <== in;", "o2 <== in2;", "o3 <== in;"]),
        "t_var_decl": (["var (v1, v2) = (1, 2);", "o <== in * v1;", "o2 <== in2 * v2;"], ["var v1 = 1;", "var v2 = 2;", "o <== in * v1;", "o2 <== in2 * v2;"]),
        "t_var_assign": (["var v1;", "var v2;", "(v1, v2) = (1, 2);", "o <== in * v1;", "o2 <== in2 * v2;"],
                         ["var v1;", "var v2;", "v1 = 1;", "v2 = 2;", "o <== in * v1;", "o2 <== in2 * v2;"]),
        "t_assign_op": (["(o, o2) <-- (in, in2 >> 1);"], ["o <-- in;", "o2 <-- in2 >> 1;"]),
        "t_reversed": (["(in, in2) ==> (o, o2);"], ["in ==> o;", "in2 ==> o2;"]),
        "t_all_skipped": (["(_, _) <== (in, in2);", "o <== in;"], ["o <== in;"]),
        "t_single": (["(o) <== (in);"], ["o <== in;"]),
    }[form]


HEAD_T = "template T(n) {\n  signal input in;\n  signal input in2;\n  signal input arr[2];\n  signal output o;\n  signal output o2;\n  signal output o3;\n  signal output oa[2];\n"


def wrap(where, loop, stmts, decls=None, anon_in_loop=None):
    """-> definition text. decls: component declarations placed before the statement (expansion)."""
    ind = "  "
    lines = []
    if where == "function":
        head = "function T(in, in2) {\n  var o;\n  var o2;\n  var o3;\n  var arr[2];\n  var oa[2];\n"
    else:
        head = HEAD_T
    body = list(stmts)
    if loop:
        pre = []
        if decls:
            # a component array, one instance per iteration
            pre.append("component h[1];")
            body = [d for d in decls] + body
        lines = pre + ["for (var q = 0; q < 1; q++) {"] + ["  " + b for b in body] + ["}"]
    else:
        lines = (["component h;"] if decls and not decls[0].startswith("component") else []) + (decls or []) + body
    if where == "function" and not any(b.lstrip().startswith("return") for b in body):
        lines.append("return o;")
    return head + "".join(ind + l + "\n" for l in lines) + "}\n"


def render(case):
    """-> (sugared text, expanded text or None)"""
    where, loop = case["where"], case["loop"]
    H = "h[q]" if loop else "h"
    if case["kind"] == "stmt":
        sug, exp = tuple_stmt(case["form"])
        if loop:
            # targets become array elements so that each iteration assigns its own signals
            pass
        s = wrap(where, loop, sug)
        if exp is None:
            return s, None
        decls = [e for e in exp if e.startswith("component h")] if any(e.startswith("component h") for e in exp) else None
        rest = [e for e in exp if not e.startswith("component h")]
        if decls:
            callee = decls[0].split("= ", 1)[1]          # e.g. `A22();`
            if loop:
                rest = [r.replace("h.", "h[q].") for r in rest]
                e = wrap(where, loop, rest, ["h[q] = " + callee])
            else:
                e = wrap(where, loop, rest, ["component h = " + callee])
        else:
            e = wrap(where, loop, rest)
        return s, e
    E, decls, repl = anon_form(case["form"], "h")
    s = wrap(where, loop, position_stmt(case["position"], E))
    if decls is None:
        return s, None
    if loop:
        decls = [d.replace("h.", "h[q].").replace("h = ", "h[q] = ") for d in decls]
        repl = repl.replace("h.", "h[q].")
    else:
        decls = ["component " + decls[0]] + decls[1:]
    if case["position"] == "statement":
        est = ["o <== in;"]
    else:
        est = position_stmt(case["position"], repl)
    e = wrap(where, loop, est, decls)
    return s, e


ANON = re.compile(r"\b(anon_[A-Za-z0-9_]*|[A-Z][A-Za-z0-9]*_\d+_\d+|h\[q\]|h\[[^\]]*\]|h)\b")


def norm_findings(od, name="T"):
    d = [x for x in od["defs"] if x["name"] == name]
    if not d or "panic" in d[0]:
        return None
    out = collections.Counter()
    for r in d[0]["cfg_reports"] + d[0]["pass_reports"]:
        nz = lambda t: re.sub(r"ANON\[[^\]]*\]", "ANON[]", ANON.sub("ANON", t))
        msg = nz(r["msg"])
        lab = ";".join(sorted(nz(l["msg"]) for l in r["primary"]))
        out[(r["id"], msg + " / " + lab, len(r["primary"]), len(r["secondary"]))] += 1
    return out, d[0]["lift_ok"]


def run(tier):
    v = Verdict("C18", tier, "model_checking")
    wd = os.path.join(vlib.BUILD, "work", "c18")
    os.makedirs(wd, exist_ok=True)
    vlib.build_harness()
    gen = run_tlc("Desugar", "Desugar.cfg", "c18", workers=2)
    cases = list(read_ndjson(gen.cases_path))
    cases = [c for c in cases if not (c["position"] == "return_arg" and c["where"] == "template")
             and not (c["where"] == "function" and c["form"] == "t_single")      # `(o) <== (in)` is a parenthesised expression, not a tuple
             and not (c["where"] == "function" and c["position"] in ("decl_init", "rhs_constrain", "rhs_assign", "ceq_side", "index_lhs", "template_param", "nested_input"))]
    docs = []
    rendered = []
    for i, c in enumerate(cases):
        s, e = render(c)
        rendered.append((s, e))
        docs.append({"id": 2 * i, "files": [{"path": "in.circom", "named": True, "text": "pragma circom 2.1.0;\n" + LIB + s}]})
        docs.append({"id": 2 * i + 1, "files": [{"path": "in.circom", "named": True, "text": "pragma circom 2.1.0;\n" + LIB + (e or s)}]})
    pin, aout, oout = os.path.join(wd, "c.in"), os.path.join(wd, "ast.out"), os.path.join(wd, "or.out")
    write_ndjson(pin, docs)
    vh(["astcheck", pin, aout])
    vh(["produce", pin, oout])
    ast = {d["id"]: d for d in read_ndjson(aout)}
    orc = {d["id"]: d for d in read_ndjson(oout)}
    outcome = collections.Counter()
    for i, c in enumerate(cases):
        s, e = rendered[i]
        info = {"use": {k: c[k] for k in ("kind", "position", "form", "where", "loop")}, "class": c["class"], "sugared": s, "expansion": e}
        a, o = ast[2 * i], orc[2 * i]
        if "panic" in a or "panic" in o:
            v.violation("desugar:panic " + (a.get("panic") or o.get("panic"))["site"], info)
            continue
        dpanic = [d for d in o["defs"] if "panic" in d]
        if dpanic:
            v.violation("desugar:panic " + dpanic[0]["panic"]["site"], dict(info, definition=dpanic[0]["name"]))
            continue
        left = [d for d in a["defs"] if d["tuples"] or d["anons"] or d["multis"]]
        if left:
            v.violation("desugar:sugar reaches the analysis (AST still contains a tuple / anonymous component)", dict(info, remaining=left))
            continue
        errors = [r for r in a["parse"] if r["cat"] == "error"]
        kept = any(d["name"] == "T" for d in a["defs"])
        if c["where"] == "function":
            if kept and not errors:
                # the sugar was not recognised as sugar at all (e.g. a parenthesised expression) -- then nothing was desugared
                v.violation("desugar:function containing a tuple or anonymous component is not rejected", info)
            elif not errors:
                v.violation("desugar:function dropped without an error", info)
            outcome["function rejected"] += 1
            continue
        if errors:
            if kept and all(r["id"] != "P1000" for r in errors) and c["class"] != "rejected-or-equal-to-expansion":
                v.violation("desugar:error reported but the template is still analysed", dict(info, errors=[r["msg"] for r in errors]))
            outcome["template rejected with an error"] += 1
            if kept and any(r["id"] in ("TAC01", "TAC02") for r in errors):
                v.violation("desugar:error reported but the template is still analysed", dict(info, errors=[r["msg"] for r in errors]))
            continue
        if not kept:
            v.violation("desugar:template dropped without an error", info)
            continue
        if c["class"] == "template-must-be-rejected":
            v.violation("desugar:malformed tuple accepted", info)
            continue
        if e is None:
            outcome["accepted, no expansion to compare (tuple expression treated as ordinary expression)"] += 1
            continue
        fs, fe = norm_findings(o), norm_findings(orc[2 * i + 1])
        if fe is None or not fe[1]:
            outcome["expansion itself does not lift (not judged)"] += 1
            continue
        if fs is None or not fs[1]:
            v.violation("desugar:desugared template does not lift although its expansion does",
                        dict(info, errors=[r["msg"] for d in o["defs"] if d["name"] == "T" for r in d.get("cfg_reports", [])]))
            continue
        if fs[0] != fe[0]:
            only_s, only_e = [list(k) for k in (fs[0] - fe[0]).elements()], [list(k) for k in (fe[0] - fs[0]).elements()]
            why = "other"
            if c["loop"] and not only_e and len(only_s) == 1 and only_s[0][0] == "CS0004" and only_s[0][1].startswith("Field element arithmetic"):
                why = "extra-CS0004-for-generated-loop-counter"
            elif c["loop"] and c["form"] in ("t_anon_outputs_skip", "t_discard_anon", "t_discard_anon_paren", "t_discard_anon_assign") and \
                    len(only_e) == 1 and only_e[0][0] == "CS0018" and all(x[0] == "CS0004" for x in only_s):
                why = "skipped-output-of-anonymous-component-in-loop-not-reported-unused"
            v.violation("desugar:findings differ from those of the hand-written expansion",
                        dict(info, why=why, only_sugared=only_s, only_expansion=only_e))
            continue
        outcome["accepted, findings equal to the expansion"] += 1
    cov = {"states": gen.distinct, "transitions": gen.generated, "traces_validated_against_impl": len(cases), "exhaustive": True,
           "evaluations": 2 * len(cases), "distinct_nontrivial": outcome["accepted, findings equal to the expansion"] + outcome["template rejected with an error"],
           "rule": "every use of Desugar.tla: 10 expression forms (anonymous components with positional / named / reversed / mixed-operator "
                   "inputs, parameters, no inputs, parallel; tuple expressions) x 21 positions, 14 tuple statement forms, x template / "
                   "function x inside / outside a loop (%d uses after dropping positions that do not exist in functions); outcomes: %s; "
                   "non-trivial = uses that are either rejected with an error or compared with their expansion" % (len(cases), dict(outcome)),
           "samples": [{"use": cases[i], "sugared": rendered[i][0], "expansion": rendered[i][1]} for i in (3, len(cases) // 2, len(cases) - 5)],
           "outcomes": dict(outcome)}
    return v.finish(cov, assumptions=["findings are compared as multisets of (id, message with generated component names normalised, label counts)",
                                      "a use may be rejected with an error instead of being expanded (both outcomes satisfy the statement)"])


def replay(path):
    doc = json.load(open(path))["case"]
    print(doc.get("sugared"))
    print(doc.get("expansion"))
    print({k: doc[k] for k in doc if k not in ("sugared", "expansion")})
    return 0
