"""C16 — field arithmetic.

A. Small fields (model checking, exhaustive): TLC enumerates every operand pair of all 24
   operations over every odd prime <= 31 (thorough: + 37..61, 127, 257) with the result of the
   reference semantics Field.tla; every case is replayed on circom_algebra::modular_arithmetic.
B. Real primes (exploration): the boundary laws of FieldGen.tla -- each checked by TLC for every
   small prime -- are instantiated for BN254, BLS12-381 and Goldilocks and run on the real code;
   over-large shift counts run one per process under a time and memory cap; the algebraic
   relations TLC establishes for Ref (RefLaws) are evaluated with the real functions on random
   and boundary operands.
"""
import os, json, random, subprocess, time
import vlib
from vlib import Verdict, run_tlc, vh, read_ndjson, write_ndjson, sample

BIN_OPS = ["add", "sub", "mul", "div", "idiv", "mod_op", "pow", "shift_l", "shift_r", "bit_or", "bit_and",
           "bit_xor", "bool_or", "bool_and", "eq", "not_eq", "lesser", "greater", "lesser_eq", "greater_eq"]
UN_OPS = ["prefix_sub", "complement_256", "not", "as_bool"]
REAL = {
    "BN254": 21888242871839275222246405745257275088548364400416034343698204186575808495617,
    "BLS12_381": 52435875175126190479447740508185965837690552500527637822603658699938581184513,
    "GOLDILOCKS": 18446744069414584321,
}


def ev(term, p):
    t = term["t"]
    b = p.bit_length()
    return {"n": term["v"], "p1": p - 1, "h": (p - 1) // 2, "h1": (p - 1) // 2 + 1, "b": b, "b1": b - 1,
            "pw": 2 ** (b - 1), "c0": (2 ** 256 - 1) % p, "c1": (2 ** 256) % p, "err": "error"}[t]


def one_process(case, timeout=20):
    """A potentially unbounded case: its own process, time and memory cap."""
    wd = os.path.join(vlib.BUILD, "work", "c16")
    pin, pout = os.path.join(wd, "one.in"), os.path.join(wd, "one.out")
    write_ndjson(pin, [case])
    import resource

    def lim():
        resource.setrlimit(resource.RLIMIT_AS, (3 << 30, 3 << 30))
    t0 = time.time()
    try:
        p = subprocess.run([vlib.VH, "field", pin, pout], timeout=timeout, preexec_fn=lim, stdout=subprocess.PIPE,
                           stderr=subprocess.PIPE, env=dict(os.environ, VH_THREADS="1", RUST_BACKTRACE="0"))
    except subprocess.TimeoutExpired:
        return {"timeout": True, "wall": time.time() - t0}
    if p.returncode != 0:
        return {"crash": p.returncode, "stderr": p.stderr.decode("utf-8", "replace")[-300:]}
    return next(read_ndjson(pout))



def vh_guarded(v, args, part):
    """run the harness; a harness process that dies (stack overflow, abort: not catchable in-process) is a violation of
    `never panics`, not a tool error. Returns False if it died."""
    p = vh(args, check=False)
    if p.returncode != 0:
        tail = (p.stderr or "")[-600:]
        what = "stack overflow" if "overflowed its stack" in tail else "abnormal termination (status %d)" % p.returncode
        v.violation("field:the process evaluating the operations died: %s" % what, {"part": part, "batch": args[1], "stderr": tail})
        return False
    return True


def run(tier):
    v = Verdict("C16", tier, "model_checking")
    wd = os.path.join(vlib.BUILD, "work", "c16")
    os.makedirs(wd, exist_ok=True)
    vlib.build_harness()
    primes = [3, 5, 7, 11, 13, 17, 19, 23, 29, 31]
    if tier == "thorough":
        primes += [37, 41, 43, 47, 53, 59, 61, 127, 257]
    cfg = os.path.join(wd, "gen.cfg")
    with open(cfg, "w") as f:
        f.write("SPECIFICATION Spec\nCONSTANTS Primes = {%s}\nINVARIANT Emit\nINVARIANT RefLaws\nINVARIANT LawsHold\n"
                "INVARIANT EmitLaws\nCHECK_DEADLOCK FALSE\n" % ", ".join(map(str, primes)))
    gen = run_tlc("FieldGen", cfg, "c16", workers=8 if tier == "quick" else 14, tags=("CASE", "LAWS"), timeout=3000)
    if gen.violated:
        # Ref itself (or a boundary law) is broken: that is a defect of the specification, not of the code
        raise vlib.ToolError("FieldGen invariants violated: %s" % gen.violated)
    laws = [json.loads(s) for t, s in gen.prints if t == "LAWS"]
    if len(laws) != 1:
        raise vlib.ToolError("LAWS line missing")
    laws = laws[0]
    out = os.path.join(wd, "field.out")
    if not vh_guarded(v, ["field", gen.cases_path, out], "A"):
        return v.finish({"evaluations": 0, "distinct_nontrivial": 0, "rule": "aborted: the harness process died in part A"})
    nA = nops = nontriv = 0
    for case, got in zip(read_ndjson(gen.cases_path), read_ndjson(out)):
        nA += 1
        for names, key in ((BIN_OPS, "bin"), (UN_OPS, "un")):
            for i, want in enumerate(case[key]):
                nops += 1
                have = got[key][i]
                op = names[i]
                if want == -1 or (op in ("shift_l", "shift_r") and case["b"] > case["p"] // 2) or \
                        (case["a"] > case["p"] // 2 or case["b"] > case["p"] // 2):
                    nontriv += 1
                wants = "error" if want == -1 else str(want)
                if isinstance(have, dict):
                    sig = "field:%s panics" % op
                elif have != wants:
                    sig = "field:%s %s" % (op, "undefined case not reported as error" if wants == "error" else
                                           ("spurious error" if have == "error" else "wrong value"))
                else:
                    continue
                v.violation(sig, {"part": "A", "op": op, "p": case["p"], "a": case["a"], "b": case["b"], "ref": wants, "real": have})
    # ---- B: real primes
    nB = 0
    rcases, meta = [], []
    for cname, p in REAL.items():
        for law in laws:
            a, b, r = ev(law["a"], p), ev(law["b"], p), ev(law["r"], p)
            rcases.append({"op": law["op"], "a": str(a), "b": str(b), "p": str(p)})
            meta.append((cname, law, str(r)))
    rin, rout = os.path.join(wd, "real.in"), os.path.join(wd, "real.out")
    write_ndjson(rin, rcases)
    if not vh_guarded(v, ["field-real", rin, rout], "B"):
        return v.finish({"evaluations": nA, "distinct_nontrivial": nontriv, "rule": "aborted: the harness process died in part B (boundary laws at the real primes)"})
    for c, (cname, law, want), got in zip(rcases, meta, read_ndjson(rout)):
        nB += 1
        if "panic" in got:
            sig = "field:%s panics" % c["op"]
        elif got.get("timeout"):
            sig = "field:%s unbounded" % c["op"]
        elif got["r"] == "error" and c["op"] in ("shift_l", "shift_r") and want == "0" and \
                min(int(c["b"]), int(c["p"]) - int(c["b"])) >= int(c["p"]).bit_length():
            continue  # over-large shift count: the statement allows an error instead of the value
        elif got["r"] != want:
            sig = "field:%s %s" % (c["op"], "undefined case not reported as error" if want == "error" else
                                   ("spurious error" if got["r"] == "error" else "wrong value"))
        else:
            continue
        v.violation(sig, {"part": "B-law", "curve": cname, "op": c["op"], "a": c["a"], "b": c["b"], "p": c["p"],
                          "law": law, "ref": want, "real": got})
    # over-large shifts: LargeShiftLaw says every count in [bits, p/2] clears the value; an error is accepted too
    nS = 0
    for cname, p in REAL.items():
        bits = p.bit_length()
        counts = sorted(set(k for k in [bits, bits + 1, 2 ** 16, 2 ** 20, 2 ** 32 - 1, 2 ** 32, 10 ** 11, 2 ** 40, 2 ** 62, 2 ** 63,
                                        2 ** 64 - 1, 2 ** 64, 2 ** 64 + 1, 2 ** 100, (p - 1) // 2] if bits <= k <= p // 2))
        for k in counts:
            for op in ("shift_l", "shift_r"):
                for x in (1, p - 1):
                    nS += 1
                    c = {"op": op, "a": str(x), "b": str(k), "p": str(p)}
                    got = one_process(c, timeout=20 if tier == "quick" else 60)
                    if got.get("timeout") or "crash" in got:
                        sig = "field:%s over-large count not handled in bounded time" % op
                    elif "panic" in got:
                        sig = "field:%s panics" % op
                    elif got["r"] not in ("0", "error"):
                        sig = "field:%s wrong value" % op
                    else:
                        continue
                    v.violation(sig, {"part": "B-shift", "curve": cname, "op": op, "a": c["a"], "b": c["b"], "p": c["p"],
                                      "ref": "0 or error within the time cap", "real": got})
                    break  # one instance per (op, count) is enough; each may burn the whole time cap
    # relations on random / boundary operands
    rnd = random.Random(vlib.seed())
    nR = 3000 if tier == "quick" else 60000
    rel = []
    for cname, p in REAL.items():
        bits = p.bit_length()
        edge = [0, 1, 2, (p - 1) // 2, (p - 1) // 2 + 1, p - 1, p - 2, 2 ** (bits - 1), 2 ** (bits - 1) - 1, 2 ** (bits - 2), 255, 256]
        for a in edge:
            for b in edge:
                rel.append({"rel": 1, "a": str(a), "b": str(b), "p": str(p), "curve": cname})
        for _ in range(nR // 3):
            a = rnd.randrange(p) if rnd.random() < 0.7 else rnd.choice(edge)
            b = rnd.randrange(p) if rnd.random() < 0.7 else rnd.choice(edge)
            if rnd.random() < 0.2:
                b = rnd.randrange(1, 2 ** rnd.randint(1, 64))
            rel.append({"rel": 1, "a": str(a), "b": str(b), "p": str(p), "curve": cname})
    qin, qout = os.path.join(wd, "rel.in"), os.path.join(wd, "rel.out")
    write_ndjson(qin, rel)
    if not vh_guarded(v, ["field", qin, qout], "B-rel"):
        return v.finish({"evaluations": nA + nB, "distinct_nontrivial": nontriv, "rule": "aborted: the harness process died in part B-rel"})
    for c, got in zip(rel, read_ndjson(qout)):
        if "panic" in got:
            v.violation("field:relation panics", {"part": "B-rel", "case": c, "real": got})
        elif got["bad"]:
            v.violation("field:relation " + got["bad"][0], {"part": "B-rel", "case": c, "real": got})
    cov = {
        "states": gen.distinct, "transitions": gen.generated, "traces_validated_against_impl": nA + nB + nS + len(rel),
        "exhaustive": True, "evaluations": nops + nB + nS + len(rel), "distinct_nontrivial": nontriv,
        "rule": "A: every (p, a, b) with p in %s, a, b in [0, p): all 20 binary and (for b = 0) 4 unary operations = %d operation "
                "cases with Ref's result, replayed on circom_algebra (non-trivial = an error case, a shift count above p/2, or an "
                "operand above p/2); B: %d boundary-law instances (%d laws, TLC-checked for every small prime, x 3 real primes), "
                "%d over-large shift cases run one per process, %d relation cases (RefLaws) on random and boundary operands of the "
                "three real primes" % (primes, nops, nB, len(laws), nS, len(rel)),
        "samples": [{"p": 7, "op": "shift_r", "a": 3, "b": 5, "ref": "Shl(3, 2, 7)"}, {"law": laws[0]}, {"law": laws[40]},
                    {"relation_case": rel[-1]}],
        "levels": {"small_fields": "model_checking (exhaustive)", "real_primes": "exploration (boundary laws + relations)"},
    }
    return v.finish(cov, assumptions=[
        "Field.tla is the authority for Circom's semantics (written from the Circom documentation; its algebraic sanity laws are TLC-checked)",
        "254-bit arithmetic cannot be evaluated by TLC: for the real primes only boundary laws (validated on all small primes) and Ref-established relations are checked",
        "an over-large shift count may yield 0 (the mathematically correct value) or an error, within 20 s and 3 GiB"])


def replay(path):
    doc = json.load(open(path))["case"]
    vlib.build_harness()
    os.makedirs(os.path.join(vlib.BUILD, "work", "c16"), exist_ok=True)
    if "case" in doc:
        c = doc["case"]
    else:
        c = {"op": doc["op"], "a": str(doc["a"]), "b": str(doc["b"]), "p": str(doc["p"])}
    print("case:", c, "ref:", doc.get("ref"))
    print("real:", one_process(c))
    return 0
