"""C02 — no silent failure (fault enumeration). Pipeline.tla / PipelineTrace.tla.

L1  TLC: the pipeline model shows an error of every fault class present and exits 1; exit 0 implies
    everything read and analysed; the run terminates -- for every scenario (per file: none / missing /
    unreadable / bad pragma / syntax fault / unresolved include; per definition: none / malformed tuple /
    anonymous component in an expression / duplicate parameters / duplicate definition; 0..2 mains).
L2a every scenario TLC emits is rendered as a project (fault details rotated: pragma versions, dangling
    symlink or invalid UTF-8, the token replaced by `@` at every token position, tuple/anonymous shapes)
    and run through the real binary (default level and --level error); PipelineTrace.tla accepts the
    run iff every fault present has an error-level diagnostic naming the right file, the status is 1,
    and a clean status 0 comes with every definition analysed.
L2b token-level faults (delete / duplicate at every token position): whatever failure the pipeline
    itself detects in-process must reach the user (error displayed, status 1), and every definition
    the parser produced for a named file is analysed.
"""
import os, re, json, random
import vlib, cli, proj
from vlib import Verdict, run_tlc, vh, read_ndjson, write_ndjson, sample
from checks.c05 import TOKEN

PRAGMAS = ["3.0.0", "2.1.5", "2.2.0", "1.9.9"]
TUPLES = ["(b, _) <== (a, a, a);", "(b) <== (a, a);", "(b, _, _) <== (a, a);"]
ANONS = ["b <== H%d()(a) + 1;", "b <== 2 * H%d()(a);", "b <== H%d()(a) * H%d()(a);"]


def tokens(text):
    out = []
    for m in TOKEN.finditer(text):
        if not m.group(0).isspace():
            out.append((m.start(), m.end()))
    return out


def base_file(i, has_main, dfault, k, with_include=False):
    h = "template H%d() {\n  signal input a;\n  signal output b;\n  b <== a * a;\n}\n" % i
    params = "n, n" if dfault == "paramdup" else "n"
    stmt = "b <== h.b * n;"
    if dfault == "tuple":
        stmt = TUPLES[k % len(TUPLES)]
    elif dfault == "anon":
        stmt = ANONS[k % len(ANONS)].replace("%d", str(i))
    t = ("template T%d(%s) {\n  signal input a;\n  signal output b;\n  component h = H%d();\n  h.a <== a;\n  %s\n}\n" %
         (i, params, i, stmt))
    dup = ("template T%d(m) {\n  signal input a;\n  signal output b;\n  b <-- a;\n}\n" % i) if dfault == "duplicate" else ""
    if dfault == "dupfunc":
        dup = "function T%d(x) {\n  return x + 1;\n}\n" % i
    main = "component main = T%d(2);\n" % i if has_main else ""
    inc = 'include "nosuch%d.circom";\n' % i if with_include else ""
    return "pragma circom 2.0.0;\n" + inc + h + t + dup + main


def render(case, k):
    """-> (files, faults [class@file], expect [definition names])"""
    n = len(case["ffault"])
    files, faults = [], []
    for i in range(1, n + 1):
        ff, df = case["ffault"][i - 1], case["dfault"][i - 1]
        path = "f%d.circom" % i
        if i == 1:
            path = {"plain": path, "underlib": "lib/" + path, "libparent": "deps/lib/" + path, "libfile": path, "viadir": "d/" + path}[case.get("place", "plain")]
        has_main = i <= case["mains"]
        text = base_file(i, has_main, df, k + i, with_include=(ff == "include"))
        if i == 1 and case.get("incmain"):
            text = text.replace("pragma circom 2.0.0;\n", 'pragma circom 2.0.0;\ninclude "inc1.circom";\n', 1)
        if i == 2 and case.get("link"):
            text = text.replace("pragma circom 2.0.0;\n", 'pragma circom 2.0.0;\ninclude "f1.circom";\n', 1)
        f = {"path": path, "named": True, "text": text}
        if i == 1 and case.get("place") == "viadir":
            f["named"] = False          # handed over through its directory (see `argv_extras`)
        if ff == "missing":
            f = {"path": path, "named": True, "missing": True}
        elif ff == "unreadable":
            if (k + i) % 2 == 0:
                f = {"path": path, "named": True, "bytes": list(text.encode()[:40]) + [0xFF, 0xFE, 0x80] + list(text.encode()[40:])}
            else:
                f = {"path": path, "named": True, "symlink": "gone%d.circom" % i}
        elif ff == "badpragma":
            f["text"] = text.replace("pragma circom 2.0.0;", "pragma circom %s;" % PRAGMAS[(k + i) % len(PRAGMAS)])
        elif ff == "syntax" and (k + i) % 5 == 4:
            # two version pragmas, the unsupported one first: the file is rejected (as a syntax error, or as demanding an
            # unsupported version), never accepted on the strength of the last pragma
            f["text"] = text.replace("pragma circom 2.0.0;", "pragma circom 2.9.9;\npragma circom 2.0.0;")
            faults.append("pragmas@%s" % path)
        elif ff == "syntax":
            toks = tokens(text)
            s, e = toks[(k * 7 + i) % len(toks)]
            f["text"] = text[:s] + "@" + text[e:]
        if ff != "none" and not (ff == "syntax" and (k + i) % 5 == 4):
            faults.append("%s@%s" % (ff, path))
        if df != "none":
            faults.append("%s@%s" % (df, path))
        files.append(f)
    if case.get("incmain"):
        files.append({"path": "inc1.circom", "named": False,
                      "text": "pragma circom 2.0.0;\ntemplate I1() {\n  signal input a;\n  signal output b;\n  b <== a * a;\n}\ncomponent main = I1();\n"})
    if "mains" in case["classes"]:
        faults.append("mains@-")
    expect = []
    if not faults:
        for i in range(1, n + 1):
            expect += ["H%d" % i, "T%d" % i]
    return files, faults, expect


def classify(ev, paths):
    """fault classes (class@file) a displayed diagnostic can stand for."""
    if ev["sev"] != "error":
        return []
    msg, idc, loc = ev["msg"], ev.get("id"), ev["loc"]
    file = loc["file"] if loc else None
    if file is None:
        for p in paths:
            if p in msg:
                file = p
    out = []
    if "Failed to open file" in msg and idc in (None, "P1000"):
        if loc:
            out.append("include@%s" % file)
        else:
            out += ["missing@%s" % file, "unreadable@%s" % file]
    elif idc == "P1003" and "not supported by Circomspect" in msg:
        out += ["badpragma@%s" % file, "pragmas@%s" % file]
    elif idc == "P1002":
        out.append("mains@-")
    elif idc == "P1000" and loc:
        out += ["syntax@%s" % file, "pragmas@%s" % file]
    elif idc == "TAC02" and loc:
        out.append("tuple@%s" % file)
    elif idc == "TAC01" and loc:
        out.append("anon@%s" % file)
    elif idc == "CS0002" and loc and "declared multiple times" in msg:
        out.append("paramdup@%s" % file)
    elif idc == "T2008" and loc:
        out += ["duplicate@%s" % file, "dupfunc@%s" % file]
    return out


def to_record(r, faults, expect, paths):
    evs = []
    for e in r["events"]:
        if e["e"] == "analyzing":
            evs.append({"e": "analyzing", "name": e["name"], "sev": "", "classes": [], "n": 0})
        elif e["e"] == "diag":
            evs.append({"e": "diag", "name": "", "sev": e["sev"], "classes": classify(e, paths), "n": 0})
        elif e["e"] == "summary":
            evs.append({"e": "summary", "name": "", "sev": "", "classes": [], "n": e["n"]})
        elif e["e"] == "stray":
            evs.append({"e": "diag", "name": "", "sev": "stray", "classes": [], "n": 0})
        else:
            evs.append({"e": "other", "name": "", "sev": "", "classes": [], "n": 0})
    return {"faults": faults, "expect": expect, "events": evs, "exit": r["code"] if r["code"] is not None else -1}


def validate(records, name, CH=500):
    wd = os.path.join(vlib.BUILD, "work", name)
    rej, states = [], 0
    for off in range(0, len(records), CH):
        tpath = os.path.join(wd, "pipeline.trace.ndjson")
        write_ndjson(tpath, records[off:off + CH])
        tr = run_tlc("PipelineTrace", "PipelineTrace.cfg", name, workers=1, env={"TRACE": tpath}, tags=("REJECT",),
                     cases_suffix="-ptrace", timeout=1800)
        states += tr.distinct
        if tr.postcondition_failed or tr.distinct != len(records[off:off + CH]) + 1:
            raise vlib.ToolError("PipelineTrace did not consume the whole trace")
        for tag, s in tr.prints:
            d = json.loads(s)
            rej.append((d["idx"] - 1 + off, d["why"]))
    return rej, states


def run(tier):
    v = Verdict("C02", tier, "fault_enumeration")
    wd = os.path.join(vlib.BUILD, "work", "c02")
    os.makedirs(wd, exist_ok=True)
    vlib.build_harness()
    rnd = random.Random(vlib.seed())
    nfiles = 2 if tier == "quick" else 3
    c = os.path.join(wd, "pipe.cfg")
    open(c, "w").write('SPECIFICATION Spec\nCONSTANTS\n  NFiles = %d\n  Level = "warning"\nINVARIANT NoSilentFailure\n'
                       'INVARIANT CleanMeansComplete\nINVARIANT ExitIsZeroOrOne\nINVARIANT Emit\n%sCHECK_DEADLOCK FALSE\n' %
                       (nfiles, "PROPERTY Terminates\n" if tier == "quick" else ""))
    gen = run_tlc("Pipeline", c, "c02", workers=8 if tier == "quick" else 14, timeout=3000, xmx="12g")
    if gen.violated:
        v.drift.append("L1: Pipeline.tla violates %s" % gen.violated)
    cases = list(read_ndjson(gen.cases_path))
    if tier == "thorough" and len(cases) > 30000:
        cases = rnd.sample(cases, 30000)
    if tier == "quick" and len(cases) > 7000:
        # every scenario with a non-default placement / link / included main, a sample of the plain ones
        special = [c_ for c_ in cases if c_.get("place", "plain") != "plain" or c_.get("link") or c_.get("incmain")]
        plain = [c_ for c_ in cases if not (c_.get("place", "plain") != "plain" or c_.get("link") or c_.get("incmain"))]
        cases = special + rnd.sample(plain, max(0, min(len(plain), 7000 - len(special))))
    jobs = []
    for k, case in enumerate(cases):
        files, faults, expect = render(case, k)
        opts = {"verbose": True, "level": "error" if k % 2 else "warning"}
        jobs.append((k, case, files, faults, expect, opts))

    def one(job):
        k, case, files, faults, expect, opts = job
        root = os.path.join(wd, "bin", "p%d" % k)
        place = case.get("place", "plain")
        libs = {"underlib": ["lib"], "libparent": ["deps"], "libfile": ["f1.circom"]}.get(place, [])
        extra = [os.path.join(root, "d")] if place == "viadir" else []
        return proj.run_binary(files, root, opts, libs=libs, extra_args=extra, timeout=60)
    runs = proj.par_runs(jobs, one)
    records, meta = [], []
    for (k, case, files, faults, expect, opts), r in zip(jobs, runs):
        paths = [f["path"] for f in files]
        records.append(to_record(r, faults, expect, paths))
        meta.append({"part": "scenario", "scenario": case, "faults": faults, "files": files, "argv": r["argv"],
                     "stdout": r["stdout"][-3000:], "stderr": r["stderr"][-600:], "exit": r["code"]})
    n_scen = len(records)
    # ---- L2b: token-level faults with the pipeline's own detection as oracle
    base = base_file(1, True, "none", 0)
    toks = tokens(base)
    muts = []
    for ti, (s, e) in enumerate(toks):
        muts.append(("delete", ti, base[:s] + base[e:]))
        muts.append(("duplicate", ti, base[:e] + " " + base[s:e] + base[e:]))
        if tier == "thorough" and ti + 1 < len(toks):
            s2, e2 = toks[ti + 1]
            muts.append(("swap", ti, base[:s] + base[s2:e2] + base[e:s2] + base[s:e] + base[e2:]))
    tin, tout = os.path.join(wd, "tok.in"), os.path.join(wd, "tok.out")
    tfiles = [[{"path": "f1.circom", "named": True, "text": t}] for (_, _, t) in muts]
    write_ndjson(tin, [{"id": i, "files": fs} for i, fs in enumerate(tfiles)])
    vh(["produce", tin, tout])
    odocs = list(read_ndjson(tout))

    def tone(i):
        return proj.run_binary(tfiles[i], os.path.join(wd, "tok", "p%d" % i), {"verbose": True, "level": "error" if i % 2 else "warning"})
    truns = proj.par_runs(range(len(muts)), tone)
    for i, ((kind, ti, text), od, r) in enumerate(zip(muts, odocs, truns)):
        info = {"part": "token-fault", "mutation": kind, "token_index": ti, "files": tfiles[i], "argv": r["argv"],
                "stdout": r["stdout"][-2500:], "stderr": r["stderr"][-500:], "exit": r["code"]}
        if "panic" in od:
            faults, expect = [], []          # a crash is C01's business; here: whatever the binary does must not be a clean exit
            if r["code"] == 0:
                v.violation("silent:clean exit although the pipeline crashes in-process", dict(info, panic=od["panic"]))
            continue
        detected = [rep for rep in od["parse"] if rep["cat"] == "error"]
        for d in od["defs"]:
            if d["named"] and "panic" not in d:
                detected += [rep for rep in d["cfg_reports"] if rep["cat"] == "error"]
        faults = []
        for rep in detected:
            file = rep["primary"][0]["file"] if rep["primary"] else "f1.circom"
            cls = {"TAC02": "tuple", "TAC01": "anon", "CS0002": "paramdup", "T2008": "duplicate", "P1002": "mains", "P1003": "badpragma"}.get(rep["id"])
            if cls is None and rep["id"] == "P1000":
                cls = ("include" if rep["primary"] else "missing") if "Failed to open file" in rep["msg"] else "syntax"
            if cls is None:
                cls = "other:" + rep["id"]
            faults.append("mains@-" if cls == "mains" else "%s@%s" % (cls, file))
        expect = [d["name"] for d in od["defs"] if d["named"]] if not faults else []
        rec = to_record(r, sorted(set(f for f in faults if not f.startswith("other:"))), expect, ["f1.circom"])
        # errors of other kinds (e.g. T2003): any error-level diagnostic + status 1 is demanded by the trace spec's exit clause
        if any(f.startswith("other:") for f in faults) and r["code"] == 0:
            v.violation("silent:detected failure not reported", dict(info, detected=[x["msg"] for x in detected]))
        records.append(rec)
        meta.append(info)
    rej, tstates = validate(records, "c02")
    for idx, why in rej:
        v.violation("silent:" + why, meta[idx])
    classes = set()
    for (k, case, files, faults, expect, opts) in jobs:
        classes.add(tuple(sorted(f.split("@")[0] for f in faults)))
    cov = {"evaluations": len(records), "distinct_nontrivial": len(classes),
           "rule": "scenarios: every assignment of {none, missing, unreadable, bad pragma, syntax fault, unresolved include} to %d named "
                   "files x {none, malformed tuple, anonymous component in expression, duplicate parameters, duplicate definition} to "
                   "their definitions x 0..2 main components (%d TLC-generated scenarios%s; fault details rotated: 4 pragma versions, "
                   "invalid UTF-8 / dangling symlink, `@` at every token position, 3 tuple and 3 anonymous shapes), each run through the "
                   "real binary at --level warning or error (quick tier: all scenarios with a non-default placement, link or included main component, the plain ones sampled); token faults: %d delete/duplicate%s mutations at every token position of a "
                   "base file with the pipeline's own in-process detection as oracle; non-trivial = distinct multisets of fault "
                   "classes" % (nfiles, n_scen, "" if tier == "quick" else ", sampled", len(muts), "/swap" if tier == "thorough" else ""),
           "samples": [{"scenario": jobs[1][1], "faults": jobs[1][3]}, {"scenario": jobs[len(jobs) // 2][1], "faults": jobs[len(jobs) // 2][3]},
                       {"token_fault": {"mutation": muts[5][0], "token_index": muts[5][1]}}],
           "states": gen.distinct + tstates, "transitions": gen.generated + tstates, "traces_validated_against_impl": len(records),
           "l1": {"module": "Pipeline", "invariants": ["NoSilentFailure", "CleanMeansComplete", "ExitIsZeroOrOne", "Terminates"],
                  "distinct": gen.distinct, "violated": gen.violated}}
    return v.finish(cov, assumptions=["options: default level and --level error, verbose (ids shown); --allow is not used (a user who "
                                      "allows an id asked for its reports to be hidden: C03)",
                                      "a diagnostic is attributed to a fault class by id, message stem and the file it names"])


def replay(path):
    doc = json.load(open(path))
    case = doc["case"]
    wd = os.path.join(vlib.BUILD, "work", "c02", "replay")
    r = proj.run_binary(case["files"], wd, {"verbose": True})
    print(" ".join(r["argv"]))
    print(r["stdout"])
    print("exit:", r["code"], "| expected faults:", case.get("faults"))
    return 0
