"""C08 — every `<--` / `-->` signal assignment is reported exactly once (SignalAssign.tla).

TLC enumerates every template built from <= MaxItems items of the alphabet of SignalAssign.tla
(scalar, reversed, array-in-loop, component input, tuple form, anonymous call with named inputs;
constraint statements mentioning the assigned signals in different ways) x nesting (none / branch /
loop) x quadratic or non-quadratic right-hand sides x template / custom template, with the expected
findings of Ref. Each is rendered (several layouts: one statement per line, two per line), run
through parse_files + the real passes, and compared clause by clause.
"""
import os, re, json, random
import vlib, proj
from vlib import Verdict, run_tlc, vh, read_ndjson, write_ndjson, sample

ORDER = ["G1", "C1", "GR", "C2", "GA", "GC", "CC", "GT", "CT", "GN", "Q", "QR", "C1b", "C0", "CN1", "CN2", "CA", "GCA", "CCA", "GCP", "GI1", "GI2", "C3", "CL"]
SUGAR_CONSTRAINTS = {"CN1", "CN2"}
SUGAR = {"GT", "GN"}


def render(case, k):
    """-> (text, spans {item: (s, e)}, element spans {(item, signal): (s, e)})"""
    rhs = "in1 * in2" if case["rhs"] == "q" else "in1 >> 1"
    rhs2 = "in2 * in2" if case["rhs"] == "q" else "in2 >> 2"
    items = [i for i in ORDER if i in case["items"]]
    if k % 2:
        items = items[::-1]
    stmts = []   # (item, text, [(signal, rel s, rel e)] element spans)
    for it in items:
        if it == "G1":
            stmts.append((it, "s1 <-- %s;" % rhs, []))
        elif it == "GR":
            stmts.append((it, "%s --> s2;" % rhs, []))
        elif it == "GC":
            stmts.append((it, "c.x <-- %s;" % rhs, []))
        elif it == "GT":
            t = "(t1, _, t2) <-- (%s, in2, %s);" % (rhs, rhs2)
            stmts.append((it, t, [("t1", 1, 3), ("t2", 8, 10)]))
        elif it == "GN":
            stmts.append((it, "z <== Sub2()(p <-- %s, q <-- %s);" % (rhs, rhs2), []))
        elif it == "C1":
            stmts.append((it, "s1 * 7 === in2;", []))
        elif it == "C1b":
            stmts.append((it, "in1 === s1 + 1;", []))
        elif it == "C2":
            stmts.append((it, "s2 * 9 === in2;", []))
        elif it == "CC":
            stmts.append((it, "c.x * 3 === in2;", []))
        elif it == "CT":
            stmts.append((it, "t1 * 5 === in2;", []))
        elif it == "Q":
            stmts.append((it, "u <== s1 + in2;", []))
        elif it == "QR":
            stmts.append((it, "s2 + in1 ==> w;", []))
        elif it == "C0":
            stmts.append((it, "in1 * 2 === in2 + in2;", []))
        elif it == "CN1":
            stmts.append((it, "zz1 <== Sub2()(s1, in2);", []))
        elif it == "CN2":
            stmts.append((it, "zz2 <== Sub2()(in1, s1);", []))
        elif it == "GA":
            continue
        elif it == "C3":
            stmts.append((it, "s3 * 5 === in2;", []))
        elif it == "CL":
            stmts.append((it, "lut[s1] === 7;", []))
        elif it in ("CA", "GCA", "CCA", "GCP", "GI1", "GI2"):
            continue
    custom = case["kind"] == "custom"
    head = "pragma circom 2.0.0;\n" + ("pragma custom_templates;\n" if custom else "")
    head += "template Sub() {\n  signal input x;\n  signal output o;\n  o <== x;\n}\n"
    head += "template Sub2() {\n  signal input p;\n  signal input q;\n  signal output o;\n  o <== p * q;\n}\n"
    head += "template %sT(n) {\n  signal input in1;\n  signal input in2;\n  signal output s1;\n  signal output s2;\n  signal s3;\n  signal sa[2];\n" % ("custom " if custom else "")
    head += "  signal t1;\n  signal t2;\n  signal u;\n  signal w;\n  signal z;\n  signal zz1;\n  signal zz2;\n  component c = Sub();\n  component cs[2];\n  component c2 = Sub();\n  var lut[2] = [3, 7];\n"
    text = head
    nest = case["nest"]
    ind = "  "
    if nest == "if":
        text += "  if (n == 1) {\n"
        ind = "    "
    elif nest == "loop":
        text += "  for (var k = 0; k < 1; k++) {\n"
        ind = "    "
    spans, elems = {}, {}
    two_per_line = (k % 3 == 0)
    line = ind
    for j, (it, t, el) in enumerate(stmts):
        start = len((text + line).encode())
        # substitutions are located without the trailing `;`, `===` statements with it
        spans[it] = (start, start + len(t) - (0 if "===" in t else 1))
        for (sig, a, b) in el:
            elems[(it, sig)] = (start + a, start + b)
        line += t
        if two_per_line and j % 2 == 0 and j + 1 < len(stmts):
            line += " "
        else:
            text += line + "\n"
            line = ind
    if line.strip():
        text += line + "\n"
    if "GA" in case["items"] or "CA" in case["items"]:
        text += ind + "for (var i = 0; i < 2; i++) {\n"
        if "GA" in case["items"]:
            t = "sa[i] <-- %s;" % ("in1 * in2" if case["rhs"] == "q" else "in1 >> i")
            start = len((text + ind + "  ").encode())
            spans["GA"] = (start, start + len(t) - 1)
            text += ind + "  " + t + "\n"
        if "CA" in case["items"]:
            t = "sa[i] * 2 === in2;"
            start = len((text + ind + "  ").encode())
            spans["CA"] = (start, start + len(t))
            text += ind + "  " + t + "\n"
        text += ind + "}\n"
    if "GCA" in case["items"] or "CCA" in case["items"]:
        # ports of the elements of a component array, assigned and constrained in a loop
        text += ind + "for (var j = 0; j < 2; j++) {\n" + ind + "  cs[j] = Sub();\n"
        if "GCA" in case["items"]:
            t = "cs[j].x <-- %s;" % ("in1 * in2" if case["rhs"] == "q" else "in1 >> j")
            start = len((text + ind + "  ").encode())
            spans["GCA"] = (start, start + len(t) - 1)
            text += ind + "  " + t + "\n"
        else:
            text += ind + "  cs[j].x <== in1;\n"
        if "CCA" in case["items"]:
            t = "cs[j].x * 2 === in2;"
            start = len((text + ind + "  ").encode())
            spans["CCA"] = (start, start + len(t))
            text += ind + "  " + t + "\n"
        text += ind + "}\n"
    if "GI1" in case["items"] or "GI2" in case["items"]:
        # the same signal assigned in both arms of a branch on a parameter: two statements, two findings
        text += ind + "if (n == 4) {\n"
        for it, r1 in (("GI1", "in1 * in2" if case["rhs"] == "q" else "in1 >> 1"), ("GI2", "in2 * in2" if case["rhs"] == "q" else "in2 >> 2")):
            if it == "GI2":
                text += ind + "} else {\n"
            if it in case["items"]:
                t = "s3 <-- %s;" % r1
                start = len((text + ind + "  ").encode())
                spans[it] = (start, start + len(t) - 1)
                text += ind + "  " + t + "\n"
        text += ind + "}\n"
    if "GCP" in case["items"]:
        # a branch whose only statement assigns a component port from a parameter: no signal of the template occurs in the block
        t = "c2.x <-- %s;" % ("n * n" if case["rhs"] == "q" else "n >> 1")
        text += ind + "if (n == 3) {\n"
        start = len((text + ind + "  ").encode())
        spans["GCP"] = (start, start + len(t) - 1)
        text += ind + "  " + t + "\n" + ind + "}\n"
    if nest != "none":
        text += "  }\n"
    text += "}\n"
    return text, spans, elems


def norm_signal(name):
    name = name.strip()
    if name.endswith(".p") or name == "p":
        return "p"
    if name.endswith(".q") or name == "q":
        return "q"
    return name.replace(" ", "").replace("cs[j]", "cs[i]")


def run(tier):
    v = Verdict("C08", tier, "model_checking")
    wd = os.path.join(vlib.BUILD, "work", "c08")
    os.makedirs(wd, exist_ok=True)
    vlib.build_harness()
    rnd = random.Random(vlib.seed())
    c = os.path.join(wd, "gen.cfg")
    maxitems = 4 if tier == "quick" else 6
    open(c, "w").write("SPECIFICATION Spec\nCONSTANTS MaxItems = %d\nINVARIANT Emit\nCHECK_DEADLOCK FALSE\n" % maxitems)
    gen = run_tlc("SignalAssign", c, "c08", workers=4, timeout=1800)
    cases = list(read_ndjson(gen.cases_path))
    total = len(cases)
    cap = 24000 if tier == "quick" else 200000
    if len(cases) > cap:
        cases = rnd.sample(cases, cap)
    rendered = [render(cs, i + vlib.seed()) for i, cs in enumerate(cases)]
    pin, pout = os.path.join(wd, "or.in"), os.path.join(wd, "or.out")
    write_ndjson(pin, [{"id": i, "files": [{"path": "in.circom", "named": True, "text": t}]} for i, (t, _, _) in enumerate(rendered)])
    vh(["produce", pin, pout], timeout=3000)
    nexp = 0
    for cs, (text, spans, elems), od in zip(cases, rendered, read_ndjson(pout)):
        info = {"source": text, "case": {k: cs[k] for k in ("items", "nest", "rhs", "kind")}, "expected": cs["expect"]}
        if "panic" in od:
            v.violation("assign:panic " + od["panic"]["site"], info)
            continue
        d = [x for x in od["defs"] if x["name"] == "T"]
        if not d or "panic" in d[0] or not d[0].get("lift_ok"):
            errs = [r["msg"] for r in (d[0].get("cfg_reports", []) if d else [])] + [r["msg"] for r in od["parse"] if r["cat"] == "error"]
            why = "other"
            if "GN" in cs["items"] and cs["nest"] == "loop" and any(re.match(r"The variable `anon_var_\d+_\d+` is used before it is defined", m) for m in errs):
                why = "anonymous-component-in-loop"
            v.violation("assign:template dropped or not lifted", dict(info, why=why, errors=errs[:3]))
            continue
        for other in od["defs"]:
            if other["name"] != "T" and any(r["id"] in ("CS0005", "CS0013") for r in other.get("pass_reports", [])):
                v.violation("assign:finding attached to another definition", dict(info, definition=other["name"]))
        reps = [r for r in d[0]["pass_reports"] if r["id"] in ("CS0005", "CS0013")]
        exp = cs["expect"]
        nexp += len(exp)
        matched = set()
        bad = None
        for r in reps:
            if not r["primary"]:
                bad = ("assign:finding without location", r["msg"])
                break
            l = r["primary"][0]
            m = re.search(r"`([^`]*)`", l["msg"])
            sig = norm_signal(m.group(1)) if m else "?"
            owner = [it for it, (s, e) in spans.items() if s <= l["s"] and l["e"] <= e + 1 and it in ("G1", "GR", "GA", "GC", "GT", "GN", "GCA", "GCP", "GI1", "GI2")]
            if len(owner) != 1:
                bad = ("assign:finding not anchored at a signal assignment statement", {"label": l})
                break
            it = owner[0]
            key = (it, sig)
            hit = [j for j, e in enumerate(exp) if e["item"] == it and e["signal"] == sig]
            if not hit:
                bad = ("assign:finding for a signal the statement does not assign", {"item": it, "signal": sig, "label": l})
                break
            if hit[0] in matched:
                bad = ("assign:assignment reported twice", {"item": it, "signal": sig})
                break
            matched.add(hit[0])
            if it not in SUGAR and (l["s"], l["e"]) != spans[it]:
                bad = ("assign:primary label is not the assignment statement", {"item": it, "label": l, "statement": spans[it]})
                break
            if r["id"] == "CS0005":
                secs = set()
                for sl in r["secondary"]:
                    o = [ci for ci, (s, e) in spans.items() if (s, e) == (sl["s"], sl["e"])]
                    if not o:       # a constraint generated for an input of an anonymous call is located at the call, inside its statement
                        o = [ci for ci, (s, e) in spans.items() if ci in SUGAR_CONSTRAINTS and s <= sl["s"] and sl["e"] <= e + 1]
                    secs.add(o[0] if len(o) == 1 else "?%d-%d" % (sl["s"], sl["e"]))
                want = set(exp[hit[0]]["secondaries"])
                if secs != want:
                    bad = ("assign:secondary locations are not the constraint statements mentioning the signal",
                           {"item": it, "signal": sig, "expected": sorted(want), "reported": sorted(secs)})
                    break
        if bad is None and len(matched) != len(exp):
            missing = [exp[j] for j in range(len(exp)) if j not in matched]
            bad = ("assign:signal assignment not reported" if cs["kind"] != "custom" else "assign:?", {"missing": missing})
        if bad is None and cs["kind"] == "custom" and reps:
            bad = ("assign:finding produced for a custom template", {"n": len(reps)})
        if bad:
            v.violation(bad[0], dict(info, detail=bad[1], findings=[(r["id"], r["primary"][:1]) for r in reps]))
    cov = {"states": gen.distinct, "transitions": gen.generated, "traces_validated_against_impl": len(cases), "exhaustive": total == len(cases),
           "evaluations": len(cases), "distinct_nontrivial": sum(1 for c0 in cases if len(c0["expect"]) >= 2),
           "rule": "every template of <= %d items out of the 15-item alphabet of SignalAssign.tla (6 assigning forms incl. tuple and anonymous "
                   "call, 9 constraint forms) x 3 nestings x quadratic / non-quadratic right-hand sides x template / custom (%d cases%s, "
                   "%d expected findings); layouts rotate (order reversed, two statements per line); non-trivial = at least two expected "
                   "findings" % (maxitems, len(cases), "" if total == len(cases) else " sampled from %d" % total, nexp),
           "samples": [{"source": rendered[i][0], "expected": cases[i]["expect"]} for i in (0, len(cases) // 2, len(cases) - 1)]}
    return v.finish(cov, assumptions=["which of the two finding kinds (signal assignment / unnecessary signal assignment) is given is C07's business; "
                                      "C08 checks the one-per-assignment bijection, anchoring and secondary locations",
                                      "for the tuple form the primary label is the element, for anonymous named inputs the call: inside the statement"])


def replay(path):
    doc = json.load(open(path))["case"]
    print(doc.get("source"))
    print({k: doc[k] for k in doc if k != "source"})
    return 0
