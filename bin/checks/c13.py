"""C13 — see bin/cfgproj.py (shared driver), spec/CfgBuild.tla (generator) and spec/CfgTrace.tla (judge)."""
import json
import cfgproj


def run(tier):
    return cfgproj.run_check("C13", tier)


def replay(path):
    doc = json.load(open(path))["case"]
    print(doc.get("source"))
    print(doc.get("why"))
    return 0
