"""C10 — lexical scoping and shadowing reports (Scopes.tla).

L1  TLC: the renaming machine of unique_vars.rs + the SSA version key is faithful to lexical scoping
    (same IR name <=> same declaration) for every scope tree of the bound.
L2  every scope tree TLC emits (with Ref's binding of every occurrence and the expected shadowing pairs)
    is rendered -- blocks as plain blocks, branches, while and for bodies -- parsed and lifted by the
    real code; compared: (name, suffix) classes of all occurrences before SSA, def/use consistency of
    (name, suffix, version) after SSA, the set of CS0001 reports (primary = shadowing declaration,
    secondary = shadowed declaration or the parameter list), CS0002 for repeated parameters; one
    end-to-end run of the real binary per sampled tree checks that the warnings are displayed.
"""
import os, json, random, collections
import vlib, cli, proj, cfgproj
from vlib import Verdict, run_tlc, vh, read_ndjson, write_ndjson, sample

BLOCKS = ["plain", "if", "while", "for", "ifelse"]


SUB = "template Sub() {\n  signal input in[4];\n  signal output out[4];\n  for (var i = 0; i < 4; i++) {\n    out[i] <== in[i];\n  }\n}\n"
# the syntactic positions in which a use of a variable can stand (the last two only in templates)
USE_FORMS = ["{n} = {n} + {lit};", "arr[{n}] = {lit};", "tmp = arr[{n}] + {lit};", "assert({n} != {lit});", "log({n}, {lit});",
             "tmp = ({n} == {lit}) ? {n} : {lit};", "tmp = g({n}, {lit});", "c.in[{n}] <== {lit};", "c.out[{n}] === {lit};"]


def render(case, k):
    """-> source of ONE definition named f: a function, or (every third tree) a template so that uses can also stand in the
    index of a component port"""
    toks = case["toks"]
    template = (k % 3 == 2)
    nforms = len(USE_FORMS) if template else len(USE_FORMS) - 2
    params = [t["n"] for t in toks if t["k"] == "P"] + ["p9"]
    out, ind = [], 1
    out.append("  var arr[4] = [0, 0, 0, 0];\n  var tmp = 0;" + ("\n  component c = Sub();" if template else ""))
    for i, t in enumerate(toks, start=1):
        pad = "  " * ind
        lit = 100 + i
        if t["k"] == "D":
            out.append("%svar %s = %d;" % (pad, t["n"], lit))
        elif t["k"] == "U":
            out.append(pad + USE_FORMS[(k // 3 + i) % nforms].format(n=t["n"], lit=lit))
        elif t["k"] == "F":
            # the header declares, tests and steps the variable; the step is an occurrence of its own (literal 2000 + position)
            out.append("%sfor (var %s = %d; %s < %d; %s += %d) {" % (pad, t["n"], lit, t["n"], lit + 1000, t["n"], lit + 2000))
            ind += 1
        elif t["k"] == "{":
            kind = BLOCKS[(k + i) % len(BLOCKS)]
            if kind == "plain":
                out.append(pad + "{")
            elif kind == "if":
                out.append("%sif (p9 == %d) {" % (pad, lit))
            elif kind == "ifelse":
                out.append("%sif (p9 == %d) { p9 = p9 + 1; } else {" % (pad, lit))
            elif kind == "while":
                out.append("%swhile (p9 == %d) {" % (pad, lit))
            else:
                out.append("%sfor (var q%d = 0; q%d < 1; q%d++) {" % (pad, i, i, i))
            ind += 1
        elif t["k"] == "}":
            if i == len(toks):
                break
            ind -= 1
            out.append("  " * ind + "}")
    if template:
        return "template f(%s) {\n%s\n}\n" % (", ".join(params), "\n".join(out))
    return "function f(%s) {\n%s\n  return p9;\n}\n" % (", ".join(params), "\n".join(out))


TRACKED = {"x", "y", "x_0", "x_1"}


def walk_expr(e, lits, names):
    if not isinstance(e, dict):
        return
    k = e.get("k")
    if k == "num":
        try:
            lits.append(int(e["num"]))
        except ValueError:
            pass
    if k in ("var", "access", "update") and e["name"]["n"] in TRACKED:
        names.add((e["name"]["n"], e["name"]["s"]))
    for f in ("l", "r", "c", "t", "f"):
        if isinstance(e.get(f), dict):
            walk_expr(e[f], lits, names)
    for a in e.get("args", []) or []:
        walk_expr(a, lits, names)
    for a in e.get("acc", []) or []:
        if isinstance(a, dict) and "i" in a:
            walk_expr(a["i"], lits, names)


def occurrences(cfg):
    """literal -> set of (name, suffix) of the tracked variables that occur (read or written, in whatever syntactic position)
    in the statement carrying that literal."""
    occ = collections.defaultdict(set)
    for b in cfg["blocks"]:
        for s in b["stmts"]:
            if s["k"] == "sub" and s["rhe"]["k"] == "phi":
                continue
            lits, names = [], set()
            if s["k"] == "sub" and s["var"]["n"] in TRACKED:
                names.add((s["var"]["n"], s["var"]["s"]))
            for f in ("rhe", "cond", "value", "lhe", "arg"):
                if isinstance(s.get(f), dict):
                    walk_expr(s[f], lits, names)
            for a in s.get("args", []) or []:
                walk_expr(a, lits, names)
            for lit in lits:
                if 100 < lit < 1000 or 2100 < lit < 3000:
                    occ[lit] |= names
    return occ


def ssa_audit(cfg):
    defs, params = set(), set((p["n"], p["s"]) for p in cfg["params"])
    for b in cfg["blocks"]:
        for s in b["stmts"]:
            if s["k"] == "sub":
                defs.add((s["var"]["n"], s["var"]["s"], s["var"]["v"]))
    bad = []
    locals_ = set((d["name"]["n"], d["name"]["s"]) for d in cfg["decls"] if d["ty"] == "var") | params
    for b in cfg["blocks"]:
        for s in b["stmts"]:
            rd = []
            for f in ("rhe", "cond", "value", "lhe", "arg"):
                if isinstance(s.get(f), dict):
                    cfgproj.reads_of(s[f], rd)
            for r in rd:
                n, sfx = r["v"].split("|")
                if (n, sfx) in locals_ and r["ver"] >= 0:
                    if (n, sfx, r["ver"]) not in defs and not ((n, sfx) in params and r["ver"] == 0):
                        bad.append((n, sfx, r["ver"]))
    return bad


def run(tier):
    v = Verdict("C10", tier, "model_checking")
    wd = os.path.join(vlib.BUILD, "work", "c10")
    os.makedirs(wd, exist_ok=True)
    vlib.build_harness()
    rnd = random.Random(vlib.seed())

    def cfg(name, names, steps, orig, invs):
        p = os.path.join(wd, name)
        open(p, "w").write('SPECIFICATION Spec\nCONSTANTS\n  Names = {%s}\n  ParamNames = {"x"}\n  MaxSteps = %d\n  MaxLen = 18\n  OrigKey = %s\n%s'
                           'CHECK_DEADLOCK FALSE\n' % (", ".join('"%s"' % n for n in names), steps, "TRUE" if orig else "FALSE",
                                                       "".join("INVARIANT %s\n" % i for i in invs)))
        return p
    if tier == "quick":
        plans = [(["x", "x_0"], 12), (["x", "y", "x_0", "x_1"], 9)]
    else:
        plans = [(["x", "x_0"], 14), (["x", "y", "x_0", "x_1"], 11)]
    cases, states, gens, l1viol = [], 0, 0, []
    for pi, (names, steps) in enumerate(plans):
        g = run_tlc("Scopes", cfg("gen%d.cfg" % pi, names, steps, False, ["L1Faithful", "Emit"]), "c10", workers=8 if tier == "quick" else 14,
                    cases_suffix="-%d" % pi, timeout=3000)
        states += g.distinct
        gens += g.generated
        l1viol += g.violated
        cases += list(read_ndjson(g.cases_path))
    if l1viol:
        v.drift.append("L1: Scopes.tla Impl is not faithful to Ref: %s" % l1viol)
    l1o = run_tlc("Scopes", cfg("l1o.cfg", ["x", "x_0"], 10, True, ["L1Faithful"]), "c10", workers=4, cases_suffix="-l1o")
    total = len(cases)
    cap = 25000 if tier == "quick" else 200000
    if len(cases) > cap:
        cases = rnd.sample(cases, cap)
    srcs = [render(c, i + vlib.seed()) for i, c in enumerate(cases)]
    pin, pout = os.path.join(wd, "ir.in"), os.path.join(wd, "ir.out")
    write_ndjson(pin, [{"id": i, "src": s} for i, s in enumerate(srcs)])
    vh(["irdump", pin, pout], timeout=3000)
    # reports with labels need real files: the production oracle
    oin, oout = os.path.join(wd, "or.in"), os.path.join(wd, "or.out")
    write_ndjson(oin, [{"id": i, "files": [{"path": "in.circom", "named": True, "text": "pragma circom 2.0.0;\n" + SUB + "function g(a, b) {\n  return a + b;\n}\n" + s}]} for i, s in enumerate(srcs)])
    vh(["produce", oin, oout], timeout=3000)
    nshadow = 0
    for i, (c, doc, od) in enumerate(zip(cases, read_ndjson(pout), read_ndjson(oout))):
        info = {"source": srcs[i], "tokens": c["toks"], "ref_binding": c["bind"], "ref_shadows": c["shadows"]}
        if "panic" in doc or "panic" in od:
            v.violation("scope:panic " + (doc.get("panic") or od.get("panic"))["site"], info)
            continue
        if not doc.get("parse") or "pre" not in doc:
            raise vlib.ToolError("generated scope tree does not parse/lift:\n" + srcs[i])
        occ = occurrences(doc["pre"])
        toks = c["toks"]
        idxs = [j for j in range(1, len(toks) + 1) if toks[j - 1]["k"] in ("D", "U", "F")]
        fidx = [j for j in idxs if toks[j - 1]["k"] == "F"]
        names = {}
        bad = None
        for j in idxs:
            got = occ.get(100 + j, set())
            if len(got) != 1:
                bad = "scope:occurrence carries %d IR names (read and write of one occurrence must agree)" % len(got)
                break
            names[j] = next(iter(got))
            if names[j][0] != toks[j - 1]["n"]:
                bad = "scope:occurrence renamed to another identifier"
                break
        if bad:
            v.violation(bad, dict(info, occurrence=j, ir_names=sorted(map(list, occ.get(100 + j, set())))))
            continue
        for j in fidx:
            got = occ.get(2100 + j, set())
            if got != {names[j]}:
                v.violation("scope:the step of a for loop does not denote the variable its header declares",
                            dict(info, header=j, header_name=list(names[j]), step_names=sorted(map(list, got))))
        for a in idxs:
            for b in idxs:
                if a < b and (c["bind"][a - 1] == c["bind"][b - 1]) != (names[a] == names[b]):
                    bad = (a, b)
        if bad:
            a, b = bad
            v.violation("scope:%s" % ("two occurrences of one declaration get different IR names" if c["bind"][a - 1] == c["bind"][b - 1]
                                      else "occurrences of different declarations share one IR name"),
                        dict(info, occurrences=[a, b], ir_names=[list(names[a]), list(names[b])]))
            continue
        if "ssa" in doc:
            bad_reads = ssa_audit(doc["ssa"])
            occ2 = occurrences(doc["ssa"])
            if bad_reads:
                v.violation("scope:after SSA a read has no definition with its (name, suffix, version)", dict(info, reads=bad_reads[:5]))
            elif any(len(occ2.get(100 + j, set())) != 1 or next(iter(occ2[100 + j])) != names[j] for j in idxs):
                v.violation("scope:SSA changes the (name, suffix) of an occurrence", info)
        else:
            v.violation("scope:SSA conversion fails", dict(info, error=doc.get("ssa_error")))
        # shadowing reports
        d = [x for x in od["defs"] if x["name"] == "f"]
        reps = [r for r in (d[0]["cfg_reports"] if d else []) if r["id"] == "CS0001"]
        got = set()
        for r in reps:
            pt = r["primary"][0]["text"] if r["primary"] else ""
            st = r["secondary"][0]["text"] if r["secondary"] else ""
            pi_ = [j for j in idxs if toks[j - 1]["k"] in ("D", "F") and ("= %d" % (100 + j)) in (pt or "")]
            if st is not None and "p9" in st:
                sj = [0]
            else:
                sj = [j for j in idxs if toks[j - 1]["k"] in ("D", "F") and ("= %d" % (100 + j)) in (st or "")]
            got.add((pi_[0] if len(pi_) == 1 else -9, sj[0] if len(sj) == 1 else -9))
        want = set((a, b) for a, b in c["shadows"])
        nshadow += len(want)
        if got != want or len(reps) != len(want):
            v.violation("scope:shadowing reports differ from the redeclarations of visible names",
                        dict(info, expected=sorted(want), reported=sorted(got), messages=[(r["primary"], r["secondary"]) for r in reps][:4]))
    # repeated parameter names -> CS0002, and display of shadowing warnings end to end
    extra = [("function f(x, x) {\n  return x;\n}\n", "CS0002"), ("template T(a, b, a) {\n  signal input s;\n  signal output o;\n  o <== s;\n}\n", "CS0002")]
    pick = [i for i in rnd.sample(range(len(cases)), min(len(cases), 60 if tier == "quick" else 600)) if cases[i]["shadows"]]
    jobs = [("pragma circom 2.0.0;\n" + s, code, 1) for s, code in extra] + [("pragma circom 2.0.0;\n" + SUB + "function g(a, b) {\n  return a + b;\n}\n" + srcs[i], "CS0001", len(cases[i]["shadows"])) for i in pick]

    def one(j):
        text, code, n = jobs[j]
        return proj.run_binary([{"path": "in.circom", "named": True, "text": text}], os.path.join(wd, "bin", "p%d" % j), {"verbose": True})
    for (text, code, n), r in zip(jobs, proj.par_runs(range(len(jobs)), one)):
        cnt = sum(1 for e in r["events"] if e["e"] == "diag" and e.get("id") == code)
        if cnt != n:
            v.violation("scope:%s not displayed" % code, {"source": text, "expected": n, "displayed": cnt, "stdout": r["stdout"][-1500:]})
    cov = {"states": states + l1o.distinct, "transitions": gens + l1o.generated, "traces_validated_against_impl": len(cases) + len(jobs),
           "exhaustive": total == len(cases), "evaluations": len(cases) + len(jobs), "distinct_nontrivial": sum(1 for c in cases if c["shadows"]),
           "rule": "every scope tree Scopes.tla derives within the step bounds %s (optional parameter x; declarations; uses in nine syntactic positions: read-write, array index on either side, assert, log, ternary, call argument, index of a component port; functions and templates; "
                   "nested and sibling blocks rendered as plain blocks, if, if/else, while and for bodies): %d trees%s, %d shadowing pairs "
                   "expected in total; non-trivial = trees with at least one shadowing declaration" %
                   (plans, len(cases), "" if total == len(cases) else " (sampled from %d)" % total, nshadow),
           "samples": [{"source": srcs[i], "shadows": cases[i]["shadows"]} for i in (0, len(cases) // 2, len(cases) - 1)],
           "l1": {"Scopes(OrigKey=FALSE)": l1viol, "Scopes(OrigKey=TRUE, the pinned commit's SSA key)": l1o.violated}}
    return v.finish(cov, assumptions=["every declaration has an initialiser and every use is bound (unbound programs are outside Ref)",
                                      "an occurrence is identified by its literal; a shadowing report by the literals under its labels"])


def replay(path):
    doc = json.load(open(path))["case"]
    print(doc.get("source"))
    print({k: doc[k] for k in doc if k not in ("source", "tokens")})
    return 0
