"""X03 (extra, not a listed property) — the findings of the real side-effect analysis are exactly those SideEffects.tla derives.

SideEffects.tla is an implementation-shaped model of taint analysis, constraint analysis and the side-effect pass (sinks, the
five finding kinds). For every generated definition the real SSA form is exported with the cached variable uses the pass
consumes; TLC evaluates the model on it and compares the multiset of (kind, displayed name) with what the real pass reported.
A difference is DRIFT between the description and the code, reported as a VIOLATION of X03 (not one of the 20 properties,
not registered in MANIFEST.checks)."""
import os, re, json, random
import vlib, sem
from vlib import Verdict, run_tlc, vh, read_ndjson, write_ndjson

PATTERNS = [
    ("unused-var", re.compile(r"^The variable `([A-Za-z_$][A-Za-z0-9_$]*)[^`]*` is assigned a value, but this value is never read\.")),
    ("unused-param", re.compile(r"^The parameter `([A-Za-z_$][A-Za-z0-9_$]*)[^`]*` is never read\.")),
    ("noeffect-var", re.compile(r"^The value assigned to `([A-Za-z_$][A-Za-z0-9_$]*)[^`]*` is not used ")),
    ("noeffect-param", re.compile(r"^The parameter `([A-Za-z_$][A-Za-z0-9_$]*)[^`]*` is not used ")),
    ("unused-signal", re.compile(r"^The signals? `([A-Za-z_$][A-Za-z0-9_$]*)[^`]*` (?:is|are) not used by the template\.")),
    ("unconstrained-signal", re.compile(r"^The signals? `([A-Za-z_$][A-Za-z0-9_$]*)[^`]*` (?:is|are) not constrained by the template\.")),
]


def record(doc):
    ssa = doc["ssa"]
    blocks = []
    for b in ssa["blocks"]:
        stmts = []
        for s in b["stmts"]:
            st = {"k": s["k"], "vr": s["vr"], "vw": s["vw"], "vu": s["vu"], "names": s.get("names_dbg", []), "condknown": False, "t": 0, "f": 0,
                  "op": s.get("op", ""), "phi": False}
            if s["k"] == "if":
                st["condknown"] = s["cond"].get("val") is not None
                st["t"] = s["t"] + 1
                st["f"] = s["f"] + 1 if s["f"] >= 0 else 0
            if s["k"] == "sub":
                st["phi"] = s["rhe"]["k"] == "phi"
            stmts.append(st)
        blocks.append({"stmts": stmts, "succs": [x + 1 for x in b["succs"]], "preds": [x + 1 for x in b["preds"]], "df": [x + 1 for x in b["df"]]})
    found = {}
    other = []
    for f in doc.get("findings", []):
        for kind, rx in PATTERNS:
            m = rx.match(f["msg"])
            if m:
                found[(kind, m.group(1))] = found.get((kind, m.group(1)), 0) + 1
                break
    kind = ssa["kind"].lower()
    return {"kind": "ok", "template": kind == "template", "function": kind == "function", "params": ssa["params_dbg"],
            "decls": [{"n": d["n"], "ty": d["ty"]} for d in ssa["decls_dbg"]], "disp": ssa["disp"], "blocks": blocks,
            "found": [{"kind": k, "name": n, "n": c} for (k, n), c in sorted(found.items())]}


def run(tier):
    v = Verdict("X03", tier, "model_checking")
    wd = os.path.join(vlib.BUILD, "work", "x03")
    os.makedirs(wd, exist_ok=True)
    vlib.build_harness()
    seed = vlib.seed()
    progs = []
    c = os.path.join(wd, "gen.cfg")
    for template in (False, True):
        for arrays in ("FALSE", "TRUE"):
            open(c, "w").write("SPECIFICATION Spec\nCONSTANTS\n  MaxSteps = %d\n  MaxLen = 24\n  Template = %s\n  Arrays = %s\nINVARIANT Emit\nCHECK_DEADLOCK FALSE\n" %
                               ((8 if tier == "quick" else 9) - (1 if arrays == "TRUE" else 0), "TRUE" if template else "FALSE", arrays))
            g = run_tlc("SemGen", c, "x03", workers=8, cases_suffix="-%s%s" % (template, arrays), timeout=1800)
            for kk, x in enumerate(read_ndjson(g.cases_path)):
                for j in range(2 if tier == "quick" else 4):
                    progs.append(sem.instantiate(x["toks"], 5, seed * 1000003 + kk * 31 + j, template, effects=(j % 2 == 0))[0])
    for d in ("base", "stress"):
        pass
    cap = 6000 if tier == "quick" else 40000
    if len(progs) > cap:
        progs = random.Random(seed).sample(progs, cap)
    pin, pout = os.path.join(wd, "ir.in"), os.path.join(wd, "ir.out")
    write_ndjson(pin, [{"id": i, "src": t, "passes": True} for i, t in enumerate(progs)])
    vh(["irdump", pin, pout], timeout=3000)
    recs, meta = [], []
    nf = 0
    for t, d in zip(progs, read_ndjson(pout)):
        if "panic" in d:
            v.violation("x03:panic %s" % d["panic"]["site"], {"source": t, "panic": d["panic"]})
            continue
        if "ssa" not in d:
            continue
        r = record(d)
        nf += sum(x["n"] for x in r["found"])
        recs.append(r)
        meta.append(t)
    cfg = os.path.join(wd, "se.cfg")
    open(cfg, "w").write("SPECIFICATION Spec\nINVARIANT Conforms\nINVARIANT Consumed\nCHECK_DEADLOCK FALSE\n")
    states = 0
    chunk = 1500
    for off in range(0, len(recs), chunk):
        tpath = os.path.join(wd, "se.trace.ndjson")
        write_ndjson(tpath, recs[off:off + chunk])
        tr = run_tlc("SideEffects", cfg, "x03", workers=1, env={"TRACE": tpath}, tags=("REJECT", "CONSUMED"), cases_suffix="-strace", timeout=3000, xmx="8g")
        states += tr.distinct
        if not any(t == "CONSUMED" for t, _ in tr.prints):
            raise vlib.ToolError("SideEffects did not consume the whole trace")
        for tag, s_ in tr.prints:
            if tag == "REJECT":
                dd = json.loads(s_)
                v.violation("x03:drift:%s" % dd["kind"], {"source": meta[off + dd["idx"] - 1], "name": dd["name"], "kind": dd["kind"],
                                                           "model_count": dd["model"], "code_count": dd["code"],
                                                           "found": recs[off + dd["idx"] - 1]["found"]})
    cov = {"states": states, "transitions": states, "traces_validated_against_impl": len(recs), "exhaustive": False, "evaluations": len(recs),
           "distinct_nontrivial": sum(1 for r in recs if r["found"]),
           "rule": "%d generated definitions (SemGen.tla skeleton instances: functions and templates, with and without local arrays, with "
                   "intermediate signals and `===` statements) analysed by the real passes; the %d findings of the side-effect analysis "
                   "compared, as a multiset of (kind, displayed name), with what SideEffects.tla derives from the exported SSA form; "
                   "non-trivial = definitions with at least one such finding" % (len(recs), nf)}
    return v.finish(cov, assumptions=["the cached variable uses, the graph and its dominance frontiers are taken from the export (validated by C12, C14, C15)",
                                      "extra check: a rejection is drift between SideEffects.tla and the code, not a violation of one of the 20 properties"])


def replay(path):
    doc = json.load(open(path))["case"]
    print(doc.get("source"))
    print({k: doc[k] for k in doc if k != "source"})
    return 0
