"""C04 — every displayed location is valid and points at the construct it talks about
(Locations.tla / LocationsTrace.tla).

Programs: the base and stress corpora, samples of the generators of C08 (signal assignments), C10
(scopes), C06/C09 (micro-programs) and C02's fault scenarios (parse errors, unresolved includes,
unclosed comments), each re-rendered under transformations that move bytes but not meaning:
multi-byte characters (2-, 3-, 4-byte) in comments before every line, block comments of the shapes
of C05 before statements, CRLF line ends, tabs.
 A  every label of every report collected in-process (before any filter): file id known, range inside
    the file, start <= end, on character boundaries -- decided by LocationsTrace.tla on a character
    model of the original file; the line/column the binary prints and every SARIF region must equal
    the position recomputed from the original characters.
 B  the text under every label is the same (modulo white space) in the transformed and the original
    rendering: locations refer to the original source, not to a pre-processed form.
 C  the identifiers a primary label's message quotes occur in the text under that label; and for the
    report kinds whose construct the generators know (CS0005/CS0013: the assignment statement, CS0001:
    the declaration, CS0009: the condition, unclosed comment: the opener) the label is that construct.
"""
import os, re, json, random, collections
import vlib, cli, proj
from vlib import Verdict, run_tlc, vh, read_ndjson, write_ndjson, sample

MB = ["é", "日本", "😀", "ß∂"]
BLOCKS = ["/**/", "/***/", "/* x **/", "/*é*/", "/* // */", "/*\n*/"]


def t_identity(text, k):
    return text


def t_multibyte(text, k):
    out = []
    for i, line in enumerate(text.split("\n")):
        if line.strip() and not line.strip().startswith("pragma"):
            out.append("// %s %s" % (MB[(i + k) % len(MB)], MB[(i + k + 1) % len(MB)]))
        out.append(line)
    return "\n".join(out)


def t_crlf(text, k):
    return text.replace("\n", "\r\n")


def t_blocks(text, k):
    out = []
    for i, line in enumerate(text.split("\n")):
        m = re.match(r"^(\s*)(\S.*)$", line)
        if m and not m.group(2).startswith(("pragma", "include", "}")):
            out.append(m.group(1).replace("  ", "\t") + BLOCKS[(i + k) % len(BLOCKS)] + " " + m.group(2))
        else:
            out.append(line)
    return "\n".join(out)


def t_mbcode(text, k):
    """non-ASCII characters OUTSIDE comments: a log statement with a multi-byte string at the start of every definition body"""
    out = []
    for line in text.split("\n"):
        out.append(line)
        if re.match(r"^\s*(template|function)\b.*\{\s*$", line):
            out.append('  log("%s %s");' % (MB[k % len(MB)], MB[(k + 2) % len(MB)]))
    return "\n".join(out)


TRANSFORMS = [("identity", t_identity), ("multibyte-string-in-code", t_mbcode), ("multibyte-comments", t_multibyte), ("crlf", t_crlf), ("block-comments-and-tabs", t_blocks)]


def chars_of(text):
    return [{"w": len(ch.encode("utf-8")), "nl": ch == "\n"} for ch in text]


def ws(s):
    """label text with comments removed and white space normalised"""
    s = re.sub(r"/\*.*?\*/", " ", s or "", flags=re.S)
    s = re.sub(r"//[^\n]*", " ", s)
    return re.sub(r"\s+", " ", s).strip()


def programs(tier, rnd):
    """-> list of (origin, text)"""
    out = []
    for d in ("base", "stress"):
        cdir = os.path.join(vlib.ROOT, "corpus", d)
        for f in sorted(os.listdir(cdir)):
            if f.endswith(".circom"):
                t = open(os.path.join(cdir, f), "rb").read()
                try:
                    t = t.decode()
                except UnicodeDecodeError:
                    continue
                if len(t) < 3000:
                    out.append(("corpus:" + f, t))
    n = 40 if tier == "quick" else 300
    # C08 generator
    from checks import c08, c10
    wd = os.path.join(vlib.BUILD, "work", "c04")
    c = os.path.join(wd, "sa.cfg")
    open(c, "w").write("SPECIFICATION Spec\nCONSTANTS MaxItems = 3\nINVARIANT Emit\nCHECK_DEADLOCK FALSE\n")
    g = run_tlc("SignalAssign", c, "c04", workers=4, cases_suffix="-sa")
    cases = list(read_ndjson(g.cases_path))
    for i, cs in enumerate(rnd.sample(cases, min(n, len(cases)))):
        out.append(("c08", c08.render(cs, i)[0]))
    # C10 generator
    c = os.path.join(wd, "sc.cfg")
    open(c, "w").write('SPECIFICATION Spec\nCONSTANTS\n  Names = {"x", "x_0"}\n  ParamNames = {"x"}\n  MaxSteps = 9\n  MaxLen = 14\n  OrigKey = FALSE\n'
                       'INVARIANT Emit\nCHECK_DEADLOCK FALSE\n')
    g2 = run_tlc("Scopes", c, "c04", workers=4, cases_suffix="-sc")
    cases = [x for x in read_ndjson(g2.cases_path) if x["shadows"]]
    for i, cs in enumerate(rnd.sample(cases, min(n, len(cases)))):
        out.append(("c10", "pragma circom 2.0.0;\n" + c10.render(cs, i)))
    # micro-programs
    import sem
    c = os.path.join(wd, "sg.cfg")
    open(c, "w").write("SPECIFICATION Spec\nCONSTANTS\n  MaxSteps = 8\n  MaxLen = 24\n  Template = TRUE\n  Arrays = FALSE\nINVARIANT Emit\nCHECK_DEADLOCK FALSE\n")
    g3 = run_tlc("SemGen", c, "c04", workers=4, cases_suffix="-sg")
    sk = list(read_ndjson(g3.cases_path))
    for i, x in enumerate(rnd.sample(sk, min(n, len(sk)))):
        text = sem.instantiate(x["toks"], 5, i + vlib.seed(), i % 2 == 0, effects=True)[0]
        out.append(("sem", "pragma circom 2.0.0;\n" + text))
    # error reports: syntax faults, unresolved include, unclosed comment, sugar errors
    base = open(os.path.join(vlib.ROOT, "corpus", "base", "p5.circom")).read()
    from checks.c02 import tokens
    toks = tokens(base)
    for (s, e) in rnd.sample(toks, min(len(toks), 12 if tier == "quick" else 60)):
        out.append(("syntax-fault", base[:s] + "@" + base[e:]))
    # characters the lexer rejects, of every width (1 to 4 bytes), in place of a token, glued to one, and at the very end
    STRAY = ["#", "α", "日", "😀", "é", "$", "\u00a0"]
    for j, (s, e) in enumerate(rnd.sample(toks, min(len(toks), 14 if tier == "quick" else 70))):
        ch = STRAY[j % len(STRAY)]
        out.append(("lexical-fault", [base[:s] + ch + base[e:], base[:s] + ch + base[s:], base[:e] + ch + ch + base[e:]][j % 3]))
    for ch in STRAY:
        out.append(("lexical-fault", base + ch))
    # a byte order mark at the start of the file (rejected or accepted, every label must still refer to the original bytes)
    out.append(("bom", "\ufeff" + base))
    out.append(("bom", "\ufeff" + t_blocks(base, 1)))
    out.append(("bom", "\ufeff" + open(os.path.join(vlib.ROOT, "corpus", "base", "p1.circom")).read()))
    out.append(("include", 'pragma circom 2.0.0;\n/* é */ include "nosuch.circom";\n' + base.split("\n", 1)[1]))
    out.append(("unclosed", base + "\n// é😀\n/* never closed é\n template X() {}\n"))
    out.append(("unclosed2", "pragma circom 2.0.0;\n// " + "é" * 70 + "\ntemplate T() {\n}\n/* x *"))
    out.append(("sugar-error", "pragma circom 2.1.0;\ntemplate A() { signal input in; signal output out; out <== in; }\ntemplate T() {\n  signal input in;\n  signal output o;\n  // 日本\n  o <== A()(in) + 1;\n}\n"))
    return gen_states(g, g2, g3), out


def gen_states(*gs):
    return sum(g.distinct for g in gs), sum(g.generated for g in gs)


QUOTED = re.compile(r"`([A-Za-z_$][A-Za-z0-9_$]*)")


def run(tier):
    v = Verdict("C04", tier, "model_checking")
    wd = os.path.join(vlib.BUILD, "work", "c04")
    os.makedirs(wd, exist_ok=True)
    vlib.build_harness()
    rnd = random.Random(vlib.seed())
    (gst, ggen), progs = programs(tier, rnd)
    variants = []   # (pi, transform name, text)
    for pi, (origin, text) in enumerate(progs):
        for tn, tf in TRANSFORMS:
            if origin.startswith("unclosed") and tn == "block-comments-and-tabs":
                continue        # a block comment inserted after the unclosed opener would close it: not meaning-preserving
            variants.append((pi, tn, tf(text, pi)))
    pin, pout = os.path.join(wd, "or.in"), os.path.join(wd, "or.out")
    write_ndjson(pin, [{"id": i, "files": [{"path": "in.circom", "named": True, "text": t}]} for i, (_, _, t) in enumerate(variants)])
    vh(["produce", pin, pout], timeout=3000)
    odocs = list(read_ndjson(pout))

    def one(i):
        pi, tn, text = variants[i]
        r = proj.run_binary([{"path": "in.circom", "named": True, "text": text}], os.path.join(wd, "bin", "p%d" % i),
                            {"level": "info", "verbose": True, "sarif": True}, timeout=60)
        import shutil
        shutil.rmtree(os.path.join(wd, "bin", "p%d" % i), ignore_errors=True)
        return r
    runs = proj.par_runs(range(len(variants)), one, workers=10)
    records, meta = [], []
    texts_by_prog = collections.defaultdict(dict)
    nlabels = 0
    for i, ((pi, tn, text), od, r) in enumerate(zip(variants, odocs, runs)):
        origin = progs[pi][0]
        info = {"origin": origin, "transform": tn, "source": text}
        if "panic" in od:
            continue            # crashes are C01's business
        reps = list(od["parse"])
        for d in od["defs"]:
            if d["named"] and "panic" not in d:
                reps += d["cfg_reports"] + d["pass_reports"]
        labels = []
        # SARIF regions, paired with the in-process labels of the same (rule, message) in position order
        sar = r.get("sarif") or {}
        sgroups = collections.defaultdict(list)
        for res in sar.get("results", []) if "results" in sar else []:
            sgroups[(res["rule"], res["msg"])].append(res)
        pgroups = collections.defaultdict(list)
        for rep in reps:
            pgroups[(rep["id"], rep["msg"])].append(rep)
        for key, plist in pgroups.items():
            plist.sort(key=lambda rep: [(l["s"], l["e"]) for l in rep["primary"] + rep["secondary"]])
            slist = sorted(sgroups.get(key, []), key=lambda res: [(l["sl"], l["sc"], l["el"], l["ec"]) for l in res["locs"] + res["related"]])
            for j, rep in enumerate(plist):
                sres = slist[j] if len(slist) == len(plist) else None
                for kind, ls, sl in (("primary", rep["primary"], sres["locs"] if sres else []), ("secondary", rep["secondary"], sres["related"] if sres else [])):
                    # the secondary labels of a finding come out of a hash set: paired by position, not by the order of emission
                    ls = sorted(ls, key=lambda l_: (l_["s"], l_["e"]))
                    sl = sorted(sl, key=lambda r_: (r_["sl"], r_["sc"], r_["el"], r_["ec"]))
                    for q, l in enumerate(ls):
                        sreg = sl[q] if q < len(sl) and len(sl) == len(ls) else None
                        labels.append({"file": 1 if l["flen"] >= 0 else 0, "s": l["s"], "e": l["e"], "primary": kind == "primary",
                                       "sl": sreg["sl"] if sreg else 0, "sc": sreg["sc"] if sreg else 0,
                                       "el": sreg["el"] if sreg else 0, "ec": sreg["ec"] if sreg else 0,
                                       "id": rep["id"], "msg": rep["msg"], "lmsg": l["msg"]})
                        nlabels += 1
                # B: texts under the labels (white space normalised)
                texts_by_prog[pi].setdefault(tn, []).append((rep["id"], rep["msg"], tuple(ws(l["text"]) for l in rep["primary"]),
                                                             tuple(sorted(ws(l["text"]) for l in rep["secondary"]))))
                # C: quoted identifiers of the primary label's message occur under the label
                for l in rep["primary"]:
                    if l["text"] is None:
                        continue
                    for name in QUOTED.findall(l["msg"])[:1]:
                        if (name in ("p", "x") and "`p/2`" in l["msg"]) or re.search(r"_\d+_\d+$", name):
                            continue            # `p/2` is prose; names like Sub2_26_401 are generated for anonymous components
                        if not re.search(r"(?<![A-Za-z0-9_$])%s(?![A-Za-z0-9_$])" % re.escape(name), l["text"]):
                            v.violation("location:primary label does not contain the identifier its message is about",
                                        dict(info, report=rep["id"], message=l["msg"], label_text=l["text"], identifier=name))
                if rep["id"] == "CS0009" and rep["primary"] and not re.match(r"^[^;{}]*$", rep["primary"][0]["text"] or ";"):
                    v.violation("location:constant-condition label is not a condition expression", dict(info, label_text=rep["primary"][0]["text"]))
                if rep["id"] in ("CS0005", "CS0013") and rep["primary"]:
                    t = rep["primary"][0]["text"] or ""
                    if not re.search(r"<--|-->|^[A-Za-z_0-9]+$|\(", t):
                        v.violation("location:signal-assignment label is not at an assignment", dict(info, label_text=t))
                if rep["msg"].startswith("Unterminated comment") and rep["primary"] and (rep["primary"][0]["text"] or "") != "/*":
                    v.violation("location:unterminated-comment label is not the comment opener", dict(info, label_text=rep["primary"][0]["text"]))
        # the line:col printed on the terminal = start of the first primary label
        printed = collections.Counter()
        for ev in r["events"]:
            if ev["e"] == "diag" and ev["loc"]:
                printed[(ev.get("id"), ev["msg"], ev["loc"]["line"], ev["loc"]["col"])] += 1
        for rep in reps:
            if rep["primary"] and all(l["valid"] for l in rep["primary"]):
                first = min(l["s"] for l in rep["primary"])
                line, col = cli.linecol(text, first)
                # only reports that are displayed (named file: all here) are printed
                if printed.get((rep["id"], rep["msg"], line, col), 0) == 0 and r["code"] in (0, 1):
                    v.violation("location:line/column printed on the terminal differs from the original source position",
                                dict(info, report=rep["id"], message=rep["msg"], expected="%d:%d" % (line, col),
                                     printed=[k[2:] for k in printed if k[0] == rep["id"] and k[1] == rep["msg"]][:5]))
        records.append({"files": [{"id": 0, "known": True, "chars": chars_of(text)}], "labels": [{k: lb[k] for k in ("file", "s", "e", "primary", "sl", "sc", "el", "ec")} for lb in labels]})
        meta.append((info, labels))
    # ---- projects of two files (main includes lib): a label must name the file its range belongs to. Findings about a component
    #      whose template lives in the included file (unused outputs, curve-specific templates, unconstrained LessThan inputs ..)
    LIBS = ["pragma circom 2.0.0;\n// %s\ntemplate Sq() {\n  signal input in;\n  signal output out;\n  signal output aux;\n  out <== in * in;\n  aux <== in + 1;\n}\n"
            "template Num2Bits(n) {\n  signal input in;\n  signal output out[n];\n  var lc = 0;\n  for (var i = 0; i < n; i++) {\n    out[i] <-- (in >> i) & 1;\n    out[i] * (out[i] - 1) === 0;\n    lc += out[i] * 2 ** i;\n  }\n  lc === in;\n}\n"
            "template LessThan(n) {\n  signal input in[2];\n  signal output out;\n  component n2b = Num2Bits(n + 1);\n  n2b.in <== in[0] + (1 << n) - in[1];\n  out <== 1 - n2b.out[n];\n}\n" % c
            for c in ("lib", "日本語のコメント " * 12, "é" * 40)]
    MAINS = ["pragma circom 2.0.0;\ninclude \"lib.circom\";\ntemplate M() {\n  signal input a;\n  signal output b;\n  component s = Sq();\n  s.in <== a;\n  b <== s.out;\n}\n",
             "pragma circom 2.0.0;\ninclude \"lib.circom\";\n// 日本\ntemplate M() {\n  signal input a;\n  signal output b;\n  component lt = LessThan(8);\n  lt.in[0] <== a;\n  lt.in[1] <== 5;\n  b <== lt.out;\n  component nb = Num2Bits(254);\n  nb.in <== a;\n}\n",
             "pragma circom 2.0.0;\ninclude \"lib.circom\";\ntemplate M() {\n  signal input a;\n  signal output b;\n  (b, _) <== Sq()(a);\n}\n"]
    mprojects = [(mi, li, [{"path": "main.circom", "named": True, "text": tf(m, mi)}, {"path": "lib.circom", "named": False, "text": tf(lb_, li)}])
                 for mi, m in enumerate(MAINS) for li, lb_ in enumerate(LIBS) for tn, tf in TRANSFORMS if tn in ("identity", "multibyte-comments", "crlf")]
    write_ndjson(pin, [{"id": i, "files": fs} for i, (_, _, fs) in enumerate(mprojects)])
    vh(["produce", pin, pout], timeout=3000)
    for (mi, li, fs), od in zip(mprojects, read_ndjson(pout)):
        if "panic" in od:
            continue
        info = {"origin": "two-files", "files": fs}
        fidx = {f["path"]: k + 1 for k, f in enumerate(fs)}
        reps = list(od["parse"])
        for d in od["defs"]:
            if d["named"] and "panic" not in d:
                reps += d["cfg_reports"] + d["pass_reports"]
        labels = []
        for rep in reps:
            for kind, ls in (("primary", rep["primary"]), ("secondary", rep["secondary"])):
                for l in ls:
                    labels.append({"file": fidx.get(l["file"], 0), "s": l["s"], "e": l["e"], "primary": kind == "primary", "sl": 0, "sc": 0, "el": 0, "ec": 0,
                                   "id": rep["id"], "msg": rep["msg"], "lmsg": l["msg"]})
                    nlabels += 1
                    # a `declared here` / `is declared` label must show the declaration of the name its message quotes
                    for name in QUOTED.findall(l["msg"])[:1]:
                        if l["text"] is not None and "declared here" in l["msg"] and not re.search(r"(?<![A-Za-z0-9_$])%s(?![A-Za-z0-9_$])" % re.escape(name), l["text"]):
                            v.violation("location:label does not contain the identifier its message is about",
                                        dict(info, report=rep["id"], message=l["msg"], label_text=l["text"], identifier=name))
        records.append({"files": [{"id": k, "known": True, "chars": chars_of(f["text"])} for k, f in enumerate(fs)],
                        "labels": [{k: lb[k] for k in ("file", "s", "e", "primary", "sl", "sc", "el", "ec")} for lb in labels]})
        meta.append((info, labels))
    # B
    for pi, by_t in texts_by_prog.items():
        ref = collections.Counter(by_t.get("identity", []))
        for tn, lst_ in by_t.items():
            if tn != "identity" and collections.Counter(lst_) != ref:
                diff = (collections.Counter(lst_) - ref) + (ref - collections.Counter(lst_))
                v.violation("location:text under the labels changes when comments / line ends / multi-byte characters are added",
                            {"origin": progs[pi][0], "transform": tn, "source": [t for (p, n, t) in variants if p == pi and n == tn][0],
                             "differing": [list(map(str, k)) for k in list(diff)[:4]]})
    # A: TLC
    rej, states = [], 0
    CH = 150
    for off in range(0, len(records), CH):
        tpath = os.path.join(wd, "loc.trace.ndjson")
        write_ndjson(tpath, records[off:off + CH])
        tr = run_tlc("LocationsTrace", "LocationsTrace.cfg", "c04", workers=1, env={"TRACE": tpath}, tags=("REJECT",), cases_suffix="-ltrace",
                     timeout=3000, xmx="8g")
        states += tr.distinct
        if tr.violated:
            raise vlib.ToolError("LocationsTrace invariant %s violated (offset cache disagrees with Locations.tla)" % tr.violated)
        if tr.postcondition_failed or tr.distinct != len(records[off:off + CH]) + 1:
            raise vlib.ToolError("LocationsTrace did not consume the whole trace")
        for tag, s in tr.prints:
            d = json.loads(s)
            rej.append((d["idx"] - 1 + off, d["why"], d["label"]))
    for idx, why, lab in rej:
        info, labels = meta[idx]
        lb = labels[lab - 1]
        v.violation("location:" + why, dict(info, report=lb["id"], message=lb["msg"], label={k: lb[k] for k in ("s", "e", "sl", "sc", "el", "ec", "primary")}))
    # L1 sanity of Locations.tla itself
    l1 = run_tlc("Locations", "Locations.cfg", "c04", workers=4, cases_suffix="-l1")
    if l1.violated:
        raise vlib.ToolError("Locations.tla sanity invariant violated")
    cov = {"states": states + gst + l1.distinct, "transitions": states + ggen + l1.generated, "traces_validated_against_impl": len(records),
           "exhaustive": False, "evaluations": len(records), "distinct_nontrivial": len(progs),
           "rule": "%d programs (corpora, samples of the C08 / C10 / micro-program generators, syntax faults at sampled token positions, "
                   "unresolved include, unclosed comments, sugar errors) x 5 renderings (identity, multi-byte string literal in code, multi-byte comment lines, CRLF, block comments "
                   "of C05's shapes + tabs) = %d runs in-process and through the real binary with SARIF; %d labels validated by "
                   "LocationsTrace.tla on a character model of the original file; non-trivial = distinct programs" %
                   (len(progs), len(records), nlabels),
           "samples": [{"origin": progs[i][0], "transform": "multibyte-comments", "source": t_multibyte(progs[i][1], i)[:400]} for i in (0, len(progs) // 2)]}
    return v.finish(cov, assumptions=["`the construct the message is about` is checked through the identifiers the primary label's message quotes and, "
                                      "for CS0005/CS0013/CS0009/unterminated comments, through the shape of the text under the label; the exact-span "
                                      "checks for signal assignments and shadowing declarations are part of C08 and C10",
                                      "SARIF results are paired with in-process reports of the same rule and message in position order"])


def replay(path):
    doc = json.load(open(path))["case"]
    print(doc.get("source"))
    print({k: doc[k] for k in doc if k != "source"})
    return 0
