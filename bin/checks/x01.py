"""X01 (not one of the 20 listed properties; growth of the specification): the syntactic passes
`field element arithmetic`, `field element comparison`, `bitwise complement` report exactly the
outermost nodes Passes.tla's Ref selects. Programs: the skeleton and expression families of bin/sem.py."""
import os, json, random
import vlib, sem
from vlib import Verdict, run_tlc, vh, read_ndjson, write_ndjson


def run(tier):
    v = Verdict("X01", tier, "model_checking")
    wd = os.path.join(vlib.BUILD, "work", "x01")
    os.makedirs(wd, exist_ok=True)
    vlib.build_harness()
    seed = vlib.seed()
    progs = []
    c = os.path.join(wd, "gen.cfg")
    for template in (False, True):
        open(c, "w").write("SPECIFICATION Spec\nCONSTANTS\n  MaxSteps = 8\n  MaxLen = 24\n  Template = %s\n  Arrays = FALSE\nINVARIANT Emit\nCHECK_DEADLOCK FALSE\n" % ("TRUE" if template else "FALSE"))
        g = run_tlc("SemGen", c, "x01", workers=4, cases_suffix="-%s" % template)
        for k, x in enumerate(read_ndjson(g.cases_path)):
            progs.append(sem.instantiate(x["toks"], 5, seed * 7919 + k, template))
    ALLB = '"mul", "div", "add", "sub", "pow", "idiv", "mod_op", "shift_l", "shift_r", "lesser_eq", "greater_eq", "lesser", "greater", "eq", "not_eq", "bool_or", "bool_and", "bit_or", "bit_and", "bit_xor"'
    open(c, "w").write('SPECIFICATION Spec\nCONSTANTS\n  Deep = TRUE\n  Atoms = {"sa", "pn", "k2"}\n  BinOps = {%s}\n  UnOps = {"prefix_sub", "not", "complement_256"}\nINVARIANT Emit\nCHECK_DEADLOCK FALSE\n' % ALLB)
    g2 = run_tlc("ExprGen", c, "x01", workers=2, cases_suffix="-deep", simulate=1500 if tier == "quick" else 15000, depth=12, timeout=600)
    for x in list(read_ndjson(g2.cases_path))[:3000 if tier == "quick" else 30000]:
        progs.append(sem.expr_program(x["toks"], "t_direct", 5))
    pin, pout = os.path.join(wd, "ir.in"), os.path.join(wd, "ir.out")
    write_ndjson(pin, [{"id": i, "src": t, "passes": True} for i, (t, _, _, _) in enumerate(progs)])
    vh(["irdump", pin, pout], timeout=3000)
    recs, meta = [], []
    for (text, prog, ranges, span), d in zip(progs, read_ndjson(pout)):
        if "panic" in d or "ssa" not in d:
            continue
        rec = {"exprs": prog["exprs"], "stmts": [{"e": s["e"], "e2": s.get("e2", 0)} for s in prog["stmts"]], "arith": [], "cmp": [], "compl": []}
        ok = True
        for f in d.get("findings", []):
            if f["id"] not in ("CS0003", "CS0004") or not f["primary"]:
                continue
            l = f["primary"][0]
            kind = "cmp" if f["id"] == "CS0003" else ("compl" if "complement" in f["msg"] else "arith")
            hits = [ei for (s, e, kc), (si, ei) in ranges.items() if s == l["s"] and e == l["e"] and kc in ("bin", "un")]
            if len(hits) != 1:
                ok = False      # a finding on a node the abstract program does not have (e.g. the for-loop step): not judged
                continue
            rec[kind].append(hits[0])
        if ok:
            recs.append(rec)
            meta.append({"source": text})
    rej, states = [], 0
    CH = 1500
    for off in range(0, len(recs), CH):
        tpath = os.path.join(wd, "passes.trace.ndjson")
        write_ndjson(tpath, recs[off:off + CH])
        tr = run_tlc("Passes", "Passes.cfg", "x01", workers=1, env={"TRACE": tpath}, tags=("REJECT",), cases_suffix="-ptrace", timeout=1800)
        states += tr.distinct
        if tr.postcondition_failed or tr.distinct != len(recs[off:off + CH]) + 1:
            raise vlib.ToolError("Passes.tla did not consume the whole trace")
        for tag, s in tr.prints:
            dd = json.loads(s)
            rej.append((dd["idx"] - 1 + off, dd["why"]))
    for idx, why in rej:
        v.violation("passes:" + why, dict(meta[idx], reported={k: recs[idx][k] for k in ("arith", "cmp", "compl")}))
    cov = {"states": states, "transitions": states, "traces_validated_against_impl": len(recs), "exhaustive": False, "evaluations": len(progs),
           "distinct_nontrivial": sum(1 for r in recs if r["arith"] or r["cmp"] or r["compl"]),
           "rule": "skeleton programs (<= 8 steps) and sampled depth-2 expressions; findings CS0003 / CS0004 mapped to abstract nodes by label range",
           "samples": [meta[0], meta[len(meta) // 2]]}
    return v.finish(cov, assumptions=["Ref = outermost-node reading of doc/analysis_passes.md"])


def replay(path):
    print(json.dumps(json.load(open(path))["case"], indent=1))
    return 0
