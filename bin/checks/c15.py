"""C15 — dominators, immediate dominators, dominator-tree children, dominance frontiers.

A. TLC enumerates every rooted digraph (entry without predecessors, all nodes reachable) up to
   MaxN nodes and prints the four results of the path-based Ref (Dominators.tla); every graph is
   replayed on the real DominatorTree::new and compared.
B. Random graphs of 6..12 nodes: the real results are recorded and validated by TLC against Ref
   (DominatorsTrace.tla).
L1. TLC checks the transcription of the algorithm (Imp) against Ref on the same scope.
"""
import os, json, random
import vlib
from vlib import Verdict, run_tlc, vh, read_ndjson, write_ndjson, sample


def gen_cfg(wd, name, maxn, invs):
    p = os.path.join(wd, name)
    with open(p, "w") as f:
        f.write("SPECIFICATION Spec\nCONSTANTS MaxN = %d\n" % maxn)
        for i in invs:
            f.write("INVARIANT %s\n" % i)
        f.write("CHECK_DEADLOCK FALSE\n")
    return p


def same(case, got):
    if "panic" in got:
        return "panic " + got["panic"]["site"]
    for k, name in (("dom", "dominator-set"), ("idom", "immediate-dominator"), ("kids", "dominator-tree-children"),
                    ("df", "dominance-frontier")):
        want, have = case[k], got[k]
        if k == "idom":
            if list(want) != list(have):
                return name
        else:
            if [sorted(x) for x in want] != [sorted(x) for x in have]:
                return name
    return None


def random_graph(rnd):
    n = rnd.randint(6, 12)
    edges = set()
    # a random spanning structure guarantees reachability, then extra edges (self loops, back edges, irreducible shapes)
    order = list(range(1, n))
    rnd.shuffle(order)
    reached = [0]
    for b in order:
        edges.add((rnd.choice(reached), b))
        reached.append(b)
    for _ in range(rnd.randint(0, 2 * n)):
        a, b = rnd.randrange(n), rnd.randrange(1, n)
        edges.add((a, b))
    return {"n": n, "e": sorted(list(e) for e in edges)}


def big_graph(n, kind, rnd):
    """graphs around the word sizes 64 / 128 (bit-set implementations): a chain, or a ladder (spine, skip edges, back edges),
    optionally renumbered"""
    edges = set((i, i + 1) for i in range(n - 1))
    if kind != "chain":
        for i in range(0, n - 3, 3):
            edges.add((i, i + 3))
        for i in range(5, n, 7):
            edges.add((i, i - 4))
    if kind == "shuffled":
        perm = list(range(1, n))
        rnd.shuffle(perm)
        perm = [0] + perm
        edges = set((perm[a], perm[b]) for a, b in edges if perm[b] != 0)
    return {"n": n, "e": sorted(list(e) for e in edges)}


def run(tier):
    v = Verdict("C15", tier, "model_checking")
    maxn = 4 if tier == "quick" else 5
    wd = os.path.join(vlib.BUILD, "work", "c15")
    os.makedirs(wd, exist_ok=True)
    vlib.build_harness()
    workers = 8 if tier == "quick" else 14
    l1 = run_tlc("Dominators", gen_cfg(wd, "l1.cfg", maxn, ["L1", "RefSane"]), "c15", workers=workers,
                 cases_suffix="-l1", timeout=3000)
    if l1.violated:
        v.drift.append("L1: Imp model of dominator_tree.rs disagrees with Ref: %s" % l1.violated)
    gen = run_tlc("Dominators", gen_cfg(wd, "gen.cfg", maxn, ["Emit"]), "c15", workers=workers, timeout=3000)
    out = os.path.join(wd, "dom.out")
    vh(["dom", gen.cases_path, out])
    nA = nontriv = 0
    samples = []
    for case, got in zip(read_ndjson(gen.cases_path), read_ndjson(out)):
        nA += 1
        if any(case["df"]):
            nontriv += 1
            if len(samples) < 4 and case["n"] == maxn and nontriv % 97 == 0:
                samples.append({"n": case["n"], "edges": case["e"], "idom": case["idom"], "df": case["df"]})
        why = same(case, got)
        if why:
            v.violation("dom:" + why, {"part": "A", "n": case["n"], "e": case["e"], "ref": case, "real": got})
    # B
    rnd = random.Random(vlib.seed())
    nB = 3000 if tier == "quick" else 30000
    graphs = [random_graph(rnd) for _ in range(nB)]
    for n in ((63, 64, 65, 128) if tier == "quick" else (63, 64, 65, 127, 128, 129, 192)):
        for kind in ("chain", "ladder", "shuffled"):
            graphs.append(big_graph(n, kind, rnd))
    rin, rout = os.path.join(wd, "rand.in"), os.path.join(wd, "rand.out")
    write_ndjson(rin, graphs)
    vh(["dom", rin, rout])
    trace, idxmap = [], []
    for i, (g, got) in enumerate(zip(graphs, read_ndjson(rout))):
        if "panic" in got:
            v.violation("dom:panic " + got["panic"]["site"], {"part": "B", "n": g["n"], "e": g["e"], "real": got})
            continue
        trace.append({"n": g["n"], "e": g["e"], "dom": got["dom"], "idom": got["idom"], "kids": got["kids"], "df": got["df"]})
        idxmap.append(i)
    nrej = statesB = 0
    CH = 3000
    for off in range(0, len(trace), CH):
        tpath = os.path.join(wd, "trace.ndjson")
        write_ndjson(tpath, trace[off:off + CH])
        tr = run_tlc("DominatorsTrace", "DominatorsTrace.cfg", "c15", workers=1, env={"TRACE": tpath}, tags=("REJECT",),
                     cases_suffix="-trace", timeout=3000)
        statesB += tr.distinct
        if tr.postcondition_failed or tr.distinct != len(trace[off:off + CH]) + 1:
            raise vlib.ToolError("DominatorsTrace did not consume the whole trace")
        for tag, sdoc in tr.prints:
            idx = json.loads(sdoc)["idx"] - 1 + off
            nrej += 1
            v.violation("dom:trace-rejected", {"part": "B", "n": trace[idx]["n"], "e": trace[idx]["e"], "real": trace[idx]})
    cov = {
        "states": gen.distinct + l1.distinct + statesB, "transitions": gen.generated + l1.generated + statesB,
        "traces_validated_against_impl": nA + len(trace), "exhaustive": True,
        "evaluations": nA + nB, "distinct_nontrivial": nontriv,
        "rule": "A: every digraph on <= %d nodes with entry 0 without predecessors and all nodes reachable (self loops and "
                "irreducible shapes included), TLC-enumerated with Ref's Dom/idom/children/DF, replayed on DominatorTree::new "
                "(%d graphs; non-trivial = some dominance frontier is non-empty); B: %d random graphs with 6..12 nodes and chains / ladders / renumbered ladders of 63, 64, 65, 128 (thorough: also 127, 129, 192) nodes, real "
                "results validated by TLC against Ref" % (maxn, nA, nB),
        "samples": samples + [{"random": graphs[0]}],
        "l1": {"module": "Dominators", "invariants": ["L1", "RefSane"], "distinct_states": l1.distinct, "violated": l1.violated},
        "trace_validation": {"module": "DominatorsTrace", "records": len(trace), "rejected": nrej},
    }
    return v.finish(cov, assumptions=["graphs satisfy the property's precondition (entry without predecessors, all nodes reachable)",
                                      "the harness node type implements DirectedGraphNode with mirrored predecessor/successor sets"])


def replay(path):
    doc = json.load(open(path))["case"]
    wd = os.path.join(vlib.BUILD, "work", "c15")
    os.makedirs(wd, exist_ok=True)
    write_ndjson(os.path.join(wd, "replay.in"), [{"n": doc["n"], "e": doc["e"]}])
    vh(["dom", os.path.join(wd, "replay.in"), os.path.join(wd, "replay.out")])
    print("graph:", doc["n"], doc["e"])
    print("real :", open(os.path.join(wd, "replay.out")).read().strip())
    if "ref" in doc:
        print("ref  :", json.dumps({k: doc["ref"][k] for k in ("dom", "idom", "kids", "df")}))
    return 0
