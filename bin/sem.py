"""Micro-programs for the semantic properties (C06, C07, C09, C20): instantiation of SemGen.tla's
skeletons, rendering with byte ranges, mapping of the real analysis' claims onto the abstract
program, records for Semantics.tla."""
import os, json, random
import vlib
from vlib import run_tlc, vh, read_ndjson, write_ndjson

BINOPS = {"mul": "*", "div": "/", "add": "+", "sub": "-", "pow": "**", "idiv": "\\", "mod_op": "%", "shift_l": "<<", "shift_r": ">>",
          "lesser_eq": "<=", "greater_eq": ">=", "lesser": "<", "greater": ">", "eq": "==", "not_eq": "!=", "bool_or": "||",
          "bool_and": "&&", "bit_or": "|", "bit_and": "&", "bit_xor": "^"}
UNOPS = {"prefix_sub": "-", "not": "!", "complement_256": "~"}
CMPOPS = ["lesser_eq", "greater_eq", "lesser", "greater", "eq", "not_eq"]
ARITH = ["add", "sub", "mul", "add", "mul", "sub", "div", "pow", "idiv", "mod_op", "shift_l", "shift_r", "bit_or", "bit_and", "bit_xor",
         "bool_or", "bool_and"] + CMPOPS


class Prog:
    def __init__(self, P, rnd, template):
        self.P, self.rnd, self.template = P, rnd, template
        self.exprs, self.stmts = [], []
        self.locals_ = []          # declared locals in scope order (all function-level for simplicity of Ref)
        self.nsig = 0
        self.signals = []          # (name, intermediate?) of the signals assigned by G / Q statements
        self.arrays = []           # declared local arrays (size 2)
        self.src_ranges = {}       # expr idx -> (s, e) relative to statement text; fixed up later
        self.pending_ranges = []

    # ---------------- expressions: returns (idx, text, [(idx, s, e) relative])
    def atom(self, allow_sig):
        r, P = self.rnd, self.P
        choice = r.random()
        if allow_sig and choice < 0.1 and [x for x in self.signals if x[1]]:
            x = r.choice([x for x in self.signals if x[1]])[0]
            return self.node({"k": "sigv", "x": x}), x
        if allow_sig and choice < 0.35:
            c = r.choice([1, 2])
            return self.node({"k": "sig", "v": c, "x": "in%d" % c}), "in%d" % c
        if choice < 0.45 and self.arrays and r.random() < 0.6:
            a = r.choice(self.arrays)
            if r.random() < 0.75 or not self.locals_:
                iv = r.choice([0, 1, 1, 0, 2])
                ii, it = self.node({"k": "num", "v": iv}), str(iv)
            else:
                ix = r.choice(self.locals_)
                ii, it = self.node({"k": "var", "x": ix}), ix
            idx = self.node({"k": "idx", "x": a, "l": ii})
            self.pending_ranges = [(ii, len(a) + 1, len(a) + 1 + len(it))]
            return idx, "%s[%s]" % (a, it)
        if choice < 0.55 and self.locals_:
            x = r.choice(self.locals_)
            return self.node({"k": "var", "x": x}), x
        if choice < 0.75:
            x = r.choice(["n", "m"])
            return self.node({"k": "var", "x": x}), x
        v = r.choice([0, 1, 2, 3, P - 1, P, P + 1, 2, 1, 0, 4])
        return self.node({"k": "num", "v": v}), str(v)

    def node(self, d):
        base = {"k": "", "op": "", "l": 0, "r": 0, "c": 0, "v": 0, "x": "", "nid": 0}
        base.update(d)
        self.exprs.append(base)
        base["nid"] = len(self.exprs)
        return len(self.exprs)

    def expr(self, depth, allow_sig, cond=False):
        """-> (idx, text, ranges) with ranges = [(idx, s, e)] relative to text"""
        r = self.rnd
        if depth == 0 or (r.random() < 0.25 and not cond):
            self.pending_ranges = []
            idx, text = self.atom(allow_sig)
            return idx, text, list(self.pending_ranges) + [(idx, 0, len(text))]
        kind = r.random()
        if cond and depth >= 1 and kind < 0.8:
            op = r.choice(CMPOPS + ["bool_and", "bool_or"])
            kind = 0.0
        else:
            op = r.choice(ARITH)

        def sub(d):
            i, t, rg = self.expr(d, allow_sig)
            if self.exprs[i - 1]["k"] in ("num", "var", "sig", "sigv", "idx"):
                return i, t, rg
            return i, "(" + t + ")", [(j, s + 1, e + 1) for (j, s, e) in rg]
        if kind < 0.72:
            li, lt, lr = sub(depth - 1)
            ri, rt, rr = sub(depth - 1 if r.random() < 0.5 else 0)
            text = "%s %s %s" % (lt, BINOPS[op], rt)
            idx = self.node({"k": "bin", "op": op, "l": li, "r": ri})
            off = len(lt) + len(BINOPS[op]) + 2
            return idx, text, lr + [(j, s + off, e + off) for (j, s, e) in rr] + [(idx, 0, len(text))]
        if kind < 0.87:
            uop = r.choice(list(UNOPS))
            ri, rt, rr = sub(depth - 1)
            text = UNOPS[uop] + rt
            idx = self.node({"k": "un", "op": uop, "r": ri})
            return idx, text, [(j, s + 1, e + 1) for (j, s, e) in rr] + [(idx, 0, len(text))]
        ci, ct, cr = sub(depth - 1)
        li, lt, lr = sub(depth - 1)
        ri, rt, rr = sub(0)
        text = "%s ? %s : %s" % (ct, lt, rt)
        idx = self.node({"k": "tern", "c": ci, "l": li, "r": ri})
        o1 = len(ct) + 3
        o2 = o1 + len(lt) + 3
        return idx, text, cr + [(j, s + o1, e + o1) for (j, s, e) in lr] + [(j, s + o2, e + o2) for (j, s, e) in rr] + [(idx, 0, len(text))]

    def stmt(self, d):
        base = {"k": "nop", "x": "", "e": 0, "e2": 0, "t": 0, "f": 0, "kids": [], "claims": [], "sid": 0, "fx": "", "exported": False,
                "constrains": False, "mentions_exported": False}
        base.update(d)
        self.stmts.append(base)
        base["sid"] = len(self.stmts)
        return len(self.stmts)


def instantiate(toks, P, seed, template, effects=False):
    """skeleton tokens -> (source text, abstract program, node ranges {(s, e, kclass): (stmt idx, expr idx)})"""
    rnd = random.Random(seed)
    pg = Prog(P, rnd, template)
    lines = []      # (indent, text, [(expr idx, rel s, rel e)], stmt idx, text offset of the expression part)
    pos = [0]
    names = ["a", "b", "c", "d"]

    chain_mode = "Sacc" in toks or "SK" in toks or "DAv" in toks
    pre_stmts = []

    def lst(ind):
        kids = []
        while toks[pos[0]] != "}":
            mark = len(pre_stmts)
            k1 = one(ind)
            # statements a construct emits in front of itself (the counter of a chain-mode loop) belong to this list
            mine = pre_stmts[mark:]
            del pre_stmts[mark:]
            kids.extend(mine)
            kids.append(k1)
        pos[0] += 1
        return kids

    def new_local():
        free = [x for x in names if x not in pg.locals_]
        return free[0] if free else None

    def one(ind):
        t = toks[pos[0]]
        pos[0] += 1
        allow_sig = template
        if t == "D0":
            v = new_local()
            if v is None:
                t = "S"
            else:
                pg.locals_.append(v)
                si = pg.stmt({"k": "decl0", "x": v})
                lines.append((ind, "var %s;" % v, [], si, 0))
                return si
        if t == "DL":
            v = new_local()
            pg.locals_.append(v)
            lv_ = rnd.choice([0, 1, 2])
            ei = pg.node({"k": "num", "v": lv_})
            si = pg.stmt({"k": "set", "x": v, "e": ei})
            lines.append((ind, "var %s = %d;" % (v, lv_), [(ei, 0, 1)], si, len("var %s = " % v)))
            return si
        if t == "D":
            v = new_local()
            if v is None:
                t = "S"
            else:
                ei, et, rg = pg.expr(rnd.choice([0, 1, 1, 2]), allow_sig)
                pg.locals_.append(v)
                si = pg.stmt({"k": "set", "x": v, "e": ei})
                lines.append((ind, "var %s = %s;" % (v, et), rg, si, len("var %s = " % v)))
                return si
        if t == "S":
            if not pg.locals_:
                v = new_local()
                pg.locals_.append(v)
                ei, et, rg = pg.expr(rnd.choice([0, 1, 2]), allow_sig)
                si = pg.stmt({"k": "set", "x": v, "e": ei})
                lines.append((ind, "var %s = %s;" % (v, et), rg, si, len("var %s = " % v)))
                return si
            v = rnd.choice(pg.locals_)
            ei, et, rg = pg.expr(rnd.choice([0, 1, 1, 2]), allow_sig)
            si = pg.stmt({"k": "set", "x": v, "e": ei})
            lines.append((ind, "%s = %s;" % (v, et), rg, si, len("%s = " % v)))
            return si
        if t == "DA":
            free = [x for x in ("arr", "brr") if x not in pg.arrays]
            if not free:
                t = "SA"
            else:
                pg.arrays.append(free[0])
                si = pg.stmt({"k": "decla", "x": free[0], "t": 2})
                lines.append((ind, "var %s[2];" % free[0], [], si, 0))
                return si
        if t == "SA":
            if not pg.arrays:
                pg.arrays.append("arr")
                si = pg.stmt({"k": "decla", "x": "arr", "t": 2})
                lines.append((ind, "var arr[2];", [], si, 0))
                return si
            a = rnd.choice(pg.arrays)
            if rnd.random() < 0.8 or not pg.locals_:
                iv = rnd.choice([0, 1])
                ii, it, irg = pg.node({"k": "num", "v": iv}), str(iv), None
            else:
                ix = rnd.choice(pg.locals_)
                ii, it = pg.node({"k": "var", "x": ix}), ix
            ei, et, rg = pg.expr(rnd.choice([0, 1, 1, 2]), allow_sig)
            si = pg.stmt({"k": "seti", "x": a, "e": ei, "e2": ii})
            pre = "%s[%s] = " % (a, it)
            lines.append((ind, pre + et + ";", rg, si, len(pre)))
            return si
        if t in ("SAv", "Gidx", "Qidx", "Ridx"):
            # SemChains.tla, cursor family: arr[a] = atom (a = the first local, the write cursor); uses of arr[0] + arr[1]
            arr = pg.arrays[0]
            if t == "SAv":
                v = pg.locals_[0]
                ii = pg.node({"k": "var", "x": v})
                pg.pending_ranges = []
                ai, at = pg.atom(template)
                rg = list(pg.pending_ranges) + [(ai, 0, len(at))]
                si = pg.stmt({"k": "seti", "x": arr, "e": ai, "e2": ii})
                pre = "%s[%s] = " % (arr, v)
                lines.append((ind, pre + at + ";", rg, si, len(pre)))
                return si
            z, o = pg.node({"k": "num", "v": 0}), pg.node({"k": "num", "v": 1})
            i0, i1 = pg.node({"k": "idx", "x": arr, "l": z}), pg.node({"k": "idx", "x": arr, "l": o})
            top = pg.node({"k": "bin", "op": "sub", "l": i0, "r": i1})      # not symmetric: it matters WHICH element was written
            text = "%s[0] - %s[1]" % (arr, arr)
            n_ = len(arr)
            rg = [(z, n_ + 1, n_ + 2), (i0, 0, n_ + 3), (o, 2 * n_ + 7, 2 * n_ + 8), (i1, n_ + 6, 2 * n_ + 9), (top, 0, len(text))]
            if t == "Ridx":
                pg.has_ret = True
                si = pg.stmt({"k": "ret", "e": top})
                lines.append((ind, "return %s;" % text, rg, si, len("return ")))
                return si
            pg.nsig += 1
            sname = "o%d" % pg.nsig
            pg.signals.append((sname, False))
            op = "<--" if t == "Gidx" else "<=="
            si = pg.stmt({"k": "nop", "x": sname, "e": top, "fx": "sigset", "exported": True, "constrains": t == "Qidx"})
            lines.append((ind, "%s %s %s;" % (sname, op, text), rg, si, len("%s %s " % (sname, op))))
            return si
        if t in ("DAv", "Gin", "Rn"):
            # SemChains.tla, family `dim`
            if t == "DAv":
                v = pg.locals_[0]
                vi = pg.node({"k": "var", "x": v})
                si = pg.stmt({"k": "nop", "e": vi, "fx": "dim"})
                lines.append((ind, "var brr[%s];" % v, [(vi, 0, len(v))], si, len("var brr[")))
                return si
            if t == "Rn":
                pg.has_ret = True
                ni = pg.node({"k": "var", "x": "n"})
                si = pg.stmt({"k": "ret", "e": ni})
                lines.append((ind, "return n;", [(ni, 0, 1)], si, len("return ")))
                return si
            pg.nsig += 1
            sname = "o%d" % pg.nsig
            pg.signals.append((sname, False))
            gi = pg.node({"k": "sig", "v": 1, "x": "in1"})
            si = pg.stmt({"k": "nop", "x": sname, "e": gi, "fx": "sigset", "exported": True, "constrains": False})
            lines.append((ind, "%s <-- in1;" % sname, [(gi, 0, 3)], si, len("%s <-- " % sname)))
            return si
        if t in ("Gt", "At", "It"):
            # SemChains.tla, family `viasig`: the first local flows into an intermediate signal (`t <-- acc`, no constraint), and only
            # that signal is read by an assertion / a branch condition: the local reaches a sink through a signal that is neither exported
            # nor a constraint partner
            if t == "Gt":
                v = pg.locals_[0]
                vi = pg.node({"k": "var", "x": v})
                pg.nsig += 1
                sname = "t%d" % pg.nsig
                pg.signals.append((sname, True))
                pg.via = sname
                si = pg.stmt({"k": "nop", "x": sname, "e": vi, "fx": "sigset", "exported": False, "constrains": False})
                lines.append((ind, "%s <-- %s;" % (sname, v), [(vi, 0, len(v))], si, len("%s <-- " % sname)))
                return si
            sname = pg.via
            lv = rnd.choice([0, 1, 2])
            op = rnd.choice(["eq", "not_eq"])
            ci, li = pg.node({"k": "sigv", "x": sname}), pg.node({"k": "num", "v": lv})
            ei = pg.node({"k": "bin", "op": op, "l": ci, "r": li})
            et = "%s %s %d" % (sname, BINOPS[op], lv)
            rg = [(ci, 0, len(sname)), (li, len(et) - 1, len(et)), (ei, 0, len(et))]
            if t == "At":
                si = pg.stmt({"k": "nop", "e": ei, "fx": "assert"})
                lines.append((ind, "assert(%s);" % et, rg, si, len("assert(")))
                return si
            # It: `if (t == k) { o <-- in1; }`
            si = pg.stmt({"k": "if", "e": ei})
            lines.append((ind, "if (%s) {" % et, rg, si, len("if (")))
            pg.nsig += 1
            oname = "o%d" % pg.nsig
            pg.signals.append((oname, False))
            gi = pg.node({"k": "sig", "v": 1, "x": "in1"})
            bi = pg.stmt({"k": "nop", "x": oname, "e": gi, "fx": "sigset", "exported": True, "constrains": False})
            lines.append((ind + 1, "%s <-- in1;" % oname, [(gi, 0, 3)], bi, len("%s <-- " % oname)))
            body = pg.stmt({"k": "blk", "kids": [bi]})
            pg.stmts[si - 1]["t"] = body
            lines.append((ind, "}", [], 0, 0))
            return si
        if t == "SK":
            # SemChains.tla, family `const`: the same constant assigned to the (uninitialised) first local
            v = pg.locals_[0]
            ei = pg.node({"k": "num", "v": 3 % P if 3 % P else 2})
            val = pg.exprs[ei - 1]["v"]
            si = pg.stmt({"k": "set", "x": v, "e": ei})
            lines.append((ind, "%s = %d;" % (v, val), [(ei, 0, 1)], si, len("%s = " % v)))
            return si
        if t in ("Sacc", "Gacc", "Qacc", "Racc"):
            # SemChains.tla: the accumulator is the first local; it is updated from itself and used after the nesting chain
            v = pg.locals_[0]
            vi = pg.node({"k": "var", "x": v})
            if t == "Sacc":
                pg.pending_ranges = []
                if pg.arrays:                      # cursor family: the cursor advances by one
                    ai, at = pg.node({"k": "num", "v": 1}), "1"
                else:
                    ai, at = pg.atom(False)
                arg = list(pg.pending_ranges) + [(ai, 0, len(at))]
                off = len(v) + 3
                top = pg.node({"k": "bin", "op": "add", "l": vi, "r": ai})
                text = "%s + %s" % (v, at)
                rg = [(vi, 0, len(v))] + [(j, a + off, b + off) for (j, a, b) in arg] + [(top, 0, len(text))]
                si = pg.stmt({"k": "set", "x": v, "e": top})
                lines.append((ind, "%s = %s;" % (v, text), rg, si, len("%s = " % v)))
                return si
            if t == "Racc":
                pg.has_ret = True
                si = pg.stmt({"k": "ret", "e": vi})
                lines.append((ind, "return %s;" % v, [(vi, 0, len(v))], si, len("return ")))
                return si
            pg.nsig += 1
            sname = "o%d" % pg.nsig
            pg.signals.append((sname, False))
            gi = pg.node({"k": "sig", "v": 1, "x": "in1"})
            top = pg.node({"k": "bin", "op": "mul", "l": gi, "r": vi})
            text = "in1 * %s" % v
            rg = [(gi, 0, 3), (vi, 6, 6 + len(v)), (top, 0, len(text))]
            op = "<--" if t == "Gacc" else "<=="
            si = pg.stmt({"k": "nop", "x": sname, "e": top, "fx": "sigset", "exported": True, "constrains": t == "Qacc"})
            lines.append((ind, "%s %s %s;" % (sname, op, text), rg, si, len("%s %s " % (sname, op))))
            return si
        if t in ("G", "Q"):
            pg.nsig += 1
            inter = effects and pg.nsig % 2 == 0
            s = ("t%d" if inter else "o%d") % pg.nsig
            pg.signals.append((s, inter))
            ei, et, rg = pg.expr(rnd.choice([1, 1, 2, 2]), True)
            si = pg.stmt({"k": "nop", "x": s, "e": ei, "fx": "sigset", "exported": not inter, "constrains": t == "Q"})
            op = "<--" if t == "G" else "<=="
            lines.append((ind, "%s %s %s;" % (s, op, et), rg, si, len("%s %s " % (s, op))))
            return si
        if t == "A":
            if template and effects and rnd.random() < 0.5:
                li, lt, lr = pg.expr(1, True)
                ri, rt, rr = pg.expr(1, True)
                si = pg.stmt({"k": "nop", "e": li, "e2": ri, "fx": "ceq"})
                off2 = len(lt) + 5
                lines.append((ind, "%s === %s;" % (lt, rt), lr + [(j, a + off2, b + off2) for (j, a, b) in rr], si, 0))
                return si
            ei, et, rg = pg.expr(1, False, cond=True)
            si = pg.stmt({"k": "nop", "e": ei, "fx": "assert"})
            lines.append((ind, "assert(%s);" % et, rg, si, len("assert(")))
            return si
        if t in ("if", "ife", "wh"):
            counter = None
            if chain_mode:
                # SemChains.tla: conditions do not read the accumulator; loops run on a counter of their own (one or two iterations)
                if t == "wh":
                    pg.ncounter = getattr(pg, "ncounter", 0) + 1
                    counter = "i%d" % pg.ncounter
                    zi = pg.node({"k": "num", "v": 0})
                    di = pg.stmt({"k": "set", "x": counter, "e": zi})
                    lines.append((ind, "var %s = 0;" % counter, [(zi, 0, 1)], di, len("var %s = " % counter)))
                    pre_stmts.append(di)
                    bound = min(2, (P - 1) // 2)        # comparisons are on signed representatives: 2 is negative in F_3
                    ci, li = pg.node({"k": "var", "x": counter}), pg.node({"k": "num", "v": bound})
                    ei = pg.node({"k": "bin", "op": "lesser", "l": ci, "r": li})
                    et = "%s < %d" % (counter, bound)
                    rg = [(ci, 0, len(counter)), (li, len(counter) + 3, len(counter) + 4), (ei, 0, len(et))]
                else:
                    pn = ["n", "m"][ind % 2]             # nested conditions read different parameters: jointly satisfiable
                    lv = rnd.choice([0, 1, 2])
                    op = rnd.choice(["greater", "eq", "not_eq", "lesser"])
                    ci, li = pg.node({"k": "var", "x": pn}), pg.node({"k": "num", "v": lv})
                    ei = pg.node({"k": "bin", "op": op, "l": ci, "r": li})
                    et = "%s %s %d" % (pn, BINOPS[op], lv)
                    rg = [(ci, 0, 1), (li, len(et) - 1, len(et)), (ei, 0, len(et))]
            else:
                ei, et, rg = pg.expr(rnd.choice([1, 1, 2]), False, cond=True)
            si = pg.stmt({"k": "wh" if t == "wh" else "if", "e": ei})
            kw = "while" if t == "wh" else "if"
            lines.append((ind, "%s (%s) {" % (kw, et), rg, si, len(kw) + 2))
            saved = list(pg.locals_)
            saved_arr = list(pg.arrays)
            kids = lst(ind + 1)
            if counter:
                c2, o2 = pg.node({"k": "var", "x": counter}), pg.node({"k": "num", "v": 1})
                inc = pg.node({"k": "bin", "op": "add", "l": c2, "r": o2})
                txt = "%s + 1" % counter
                ii = pg.stmt({"k": "set", "x": counter, "e": inc})
                lines.append((ind + 1, "%s = %s;" % (counter, txt), [(c2, 0, len(counter)), (o2, len(txt) - 1, len(txt)), (inc, 0, len(txt))], ii,
                              len("%s = " % counter)))
                kids.append(ii)
            pg.arrays[:] = saved_arr
            pg.locals_[:] = saved        # names declared in the block go out of scope (a later declaration re-initialises them)
            body = pg.stmt({"k": "blk", "kids": kids})
            pg.stmts[si - 1]["t"] = body
            if t == "ife":
                lines.append((ind, "} else {", [], 0, 0))
                kids2 = lst(ind + 1)
                pg.locals_[:] = saved
                pg.arrays[:] = saved_arr
                body2 = pg.stmt({"k": "blk", "kids": kids2})
                pg.stmts[si - 1]["f"] = body2
            lines.append((ind, "}", [], 0, 0))
            return si
        raise ValueError(t)
    kids = lst(1)
    if not template and not getattr(pg, "has_ret", False):
        ei, et, rg = pg.expr(1, False)
        si = pg.stmt({"k": "ret", "e": ei})
        lines.append((1, "return %s;" % et, rg, si, len("return ")))
        kids.append(si)
    root = pg.stmt({"k": "blk", "kids": kids})
    # assemble the text
    if template:
        head = "template T(n, m) {\n  signal input in1;\n  signal input in2;\n" + \
               "".join("  signal %s%s;\n" % ("" if inter else "output ", nm) for (nm, inter) in pg.signals)
    else:
        head = "function f(n, m) {\n"
    text = head
    ranges = {}
    stmt_span = {}
    for (ind, t, rg, si, off) in lines:
        pad = "  " * ind
        start = len(text.encode()) + len(pad)
        for (ei, s, e) in rg:
            kc = pg.exprs[ei - 1]["k"]
            kc = "var" if kc in ("sig", "sigv") else kc
            ranges[(start + off + s, start + off + e, kc)] = (si, ei)
        if si:
            end = start + len(t) - (1 if t.endswith(";") else 0)
            stmt_span[si] = (start, end)
        text += pad + t + "\n"
    text += "}\n"
    prog = {"kind": "ok", "params": ["n", "m"], "exprs": pg.exprs, "stmts": pg.stmts, "root": root, "template": template,
            "inputs": ["in1", "in2"] if template else [], "signals": [list(x) for x in pg.signals]}
    return text, prog, ranges, stmt_span



LIT = {"k0": 0, "k1": 1, "k2": 2}


def build_expr(pg, toks, pos, amap, P):
    """prefix tokens of ExprGen.tla -> (idx, text, ranges); amap: atom class -> (node dict, text)"""
    t = toks[pos[0]]
    pos[0] += 1
    if t == "atom":
        a = toks[pos[0]]
        pos[0] += 1
        if a in amap:
            nd, text = amap[a]
            idx = pg.node(dict(nd))
        else:
            v = P - 1 if a == "k3" else LIT[a]
            idx, text = pg.node({"k": "num", "v": v}), str(v)
        return idx, text, [(idx, 0, len(text))]

    def sub():
        i, tx, rg = build_expr(pg, toks, pos, amap, P)
        if pg.exprs[i - 1]["k"] in ("num", "var", "sig"):
            return i, tx, rg
        return i, "(" + tx + ")", [(j, a + 1, b + 1) for (j, a, b) in rg]
    if t == "bin":
        op = toks[pos[0]]
        pos[0] += 1
        li, lt, lr = sub()
        ri, rt, rr = sub()
        text = "%s %s %s" % (lt, BINOPS[op], rt)
        idx = pg.node({"k": "bin", "op": op, "l": li, "r": ri})
        off = len(lt) + len(BINOPS[op]) + 2
        return idx, text, lr + [(j, a + off, b + off) for (j, a, b) in rr] + [(idx, 0, len(text))]
    if t == "un":
        op = toks[pos[0]]
        pos[0] += 1
        if op == "sq":
            # a call of the known function sq(x) = x * x (the tool sees an opaque call; the executor knows what it computes)
            ri, rt, rr = build_expr(pg, toks, pos, amap, P)
            text = "sq(" + rt + ")"
            idx = pg.node({"k": "un", "op": "sq", "r": ri})
            return idx, text, [(j, a + 3, b + 3) for (j, a, b) in rr] + [(idx, 0, len(text))]
        ri, rt, rr = sub()
        text = UNOPS[op] + rt
        idx = pg.node({"k": "un", "op": op, "r": ri})
        return idx, text, [(j, a + 1, b + 1) for (j, a, b) in rr] + [(idx, 0, len(text))]
    if t == "tern":
        ci, ct, cr = sub()
        li, lt, lr = sub()
        ri, rt, rr = sub()
        text = "%s ? %s : %s" % (ct, lt, rt)
        idx = pg.node({"k": "tern", "c": ci, "l": li, "r": ri})
        o1 = len(ct) + 3
        o2 = o1 + len(lt) + 3
        return idx, text, cr + [(j, a + o1, b + o1) for (j, a, b) in lr] + [(j, a + o2, b + o2) for (j, a, b) in rr] + [(idx, 0, len(text))]
    raise ValueError(t)


FUNC_CTX = ["f_direct", "f_join", "f_partial", "f_loop"]
TEMPL_CTX = ["t_direct", "t_constrain", "t_local", "t_loop", "t_join", "t_array_if", "t_array_seq", "t_operand_join", "t_port", "t_array_loop"]


def expr_program(toks, ctx, P):
    """an ExprGen expression placed in a data-flow context -> (text, prog, ranges, stmt_span)"""
    template = ctx.startswith("t_")
    pg = Prog(P, random.Random(0), template)
    lines = []

    def var(x):
        return ({"k": "var", "x": x}, x)

    def sig(c):
        return ({"k": "sig", "v": c}, "in%d" % c)

    def num(v):
        i = pg.node({"k": "num", "v": v})
        return i

    def simple(kind, x, etoks_or_idx, text_prefix, ind=1, raw=None):
        """statement with one expression; etoks_or_idx: prefix tokens or (idx, text, ranges)"""
        if isinstance(etoks_or_idx, tuple):
            ei, et, rg = etoks_or_idx
        else:
            ei, et, rg = build_expr(pg, etoks_or_idx, [0], amap, P)
        si = pg.stmt({"k": kind, "x": x, "e": ei})
        lines.append((ind, text_prefix + et + (")" if text_prefix.endswith("(") else "") + ";", rg, si, len(text_prefix)))
        return si

    def lit_expr(v):
        i = num(v)
        return (i, str(v), [(i, 0, len(str(v)))])

    def binx(op, a, b):
        """a, b: (idx, text, ranges) of atoms"""
        text = "%s %s %s" % (a[1], BINOPS[op], b[1])
        off = len(a[1]) + len(BINOPS[op]) + 2
        idx = pg.node({"k": "bin", "op": op, "l": a[0], "r": b[0]})
        return (idx, text, a[2] + [(j, s0 + off, e0 + off) for (j, s0, e0) in b[2]] + [(idx, 0, len(text))])

    def atom_expr(a):
        nd, text = a
        i = pg.node(dict(nd))
        return (i, text, [(i, 0, len(text))])
    kids = []
    if not template:
        amap = {"sa": var("m"), "sb": var("n"), "pn": var("n"), "lv": var("v")}
        if ctx == "f_direct":
            kids.append(simple("set", "v", lit_expr(3), "var v = "))
        elif ctx == "f_join":
            kids.append(simple("set", "v", lit_expr(1), "var v = "))
            c = simple("if", "", binx("eq", atom_expr(var("n")), lit_expr(0)), "if (", ind=1)
            lines[-1] = (1, lines[-1][1][:-2] + ") {", lines[-1][2], lines[-1][3], lines[-1][4])
            b = simple("set", "v", lit_expr(2), "v = ", ind=2)
            lines.append((1, "}", [], 0, 0))
            pg.stmts[c - 1]["t"] = pg.stmt({"k": "blk", "kids": [b]})
            kids.append(c)
        elif ctx == "f_partial":
            si = pg.stmt({"k": "decl0", "x": "v"})
            lines.append((1, "var v;", [], si, 0))
            kids.append(si)
            c = simple("if", "", binx("greater", atom_expr(var("n")), lit_expr(1)), "if (", ind=1)
            lines[-1] = (1, lines[-1][1][:-2] + ") {", lines[-1][2], lines[-1][3], lines[-1][4])
            b = simple("set", "v", lit_expr(1), "v = ", ind=2)
            b2 = None
            lines.append((1, "}", [], 0, 0))
            pg.stmts[c - 1]["t"] = pg.stmt({"k": "blk", "kids": [b]})
            kids.append(c)
        elif ctx == "f_loop":
            kids.append(simple("set", "v", lit_expr(0), "var v = "))
            c = simple("wh", "", binx("lesser", atom_expr(var("v")), lit_expr(2)), "while (", ind=1)
            lines[-1] = (1, lines[-1][1][:-2] + ") {", lines[-1][2], lines[-1][3], lines[-1][4])
            b = simple("set", "v", binx("add", atom_expr(var("v")), lit_expr(1)), "v = ", ind=2)
            lines.append((1, "}", [], 0, 0))
            pg.stmts[c - 1]["t"] = pg.stmt({"k": "blk", "kids": [b]})
            kids.append(c)
        # the expression is used as a condition and returned
        ci = simple("if", "", toks, "if (", ind=1)
        lines[-1] = (1, lines[-1][1][:-2] + ") {", lines[-1][2], lines[-1][3], lines[-1][4])
        r1 = simple("ret", "", lit_expr(1), "return ", ind=2)
        lines.append((1, "}", [], 0, 0))
        pg.stmts[ci - 1]["t"] = pg.stmt({"k": "blk", "kids": [r1]})
        kids.append(ci)
        kids.append(simple("ret", "", toks, "return "))
    else:
        amap = {"sa": sig(1), "sb": sig(2), "pn": var("n"), "lv": var("v")}
        pg.nsig = 1
        if ctx == "t_port":
            # an output port of a sub-component is an indeterminate of its own (the third one): `sa` and the local `v` stand for it
            port = ({"k": "sig", "v": 3, "x": "c.o"}, "c.o")
            for line in ("component c = Sub();", "c.x <== in1;"):
                si = pg.stmt({"k": "nop"})
                lines.append((1, line, [], si, 0))
                kids.append(si)
            amap["sa"] = port
            kids.append(simple("set", "v", binx("mul", atom_expr(port), lit_expr(2)), "var v = "))
            kids.append(simple("nop", "o1", toks, "o1 <-- "))
        else:
            kids.append(simple("set", "v", binx("mul", atom_expr(sig(1)), lit_expr(2)), "var v = "))
        if ctx == "t_port":
            pass
        elif ctx == "t_direct":
            kids.append(simple("nop", "o1", toks, "o1 <-- "))
        elif ctx == "t_constrain":
            kids.append(simple("nop", "o1", toks, "o1 <== "))
        elif ctx == "t_operand_join":
            # the local operand `v` carries a merged degree range (linear on one path, constant on the other)
            c = simple("if", "", binx("greater", atom_expr(var("n")), lit_expr(0)), "if (", ind=1)
            lines[-1] = (1, lines[-1][1][:-2] + ") {", lines[-1][2], lines[-1][3], lines[-1][4])
            b = simple("set", "v", lit_expr(2), "v = ", ind=2)
            lines.append((1, "}", [], 0, 0))
            pg.stmts[c - 1]["t"] = pg.stmt({"k": "blk", "kids": [b]})
            kids.append(c)
            kids.append(simple("nop", "o1", toks, "o1 <-- "))
        elif ctx == "t_local":
            kids.append(simple("set", "w", toks, "var w = "))
            kids.append(simple("nop", "o1", atom_expr(var("w")), "o1 <-- "))
        elif ctx == "t_loop":
            kids.append(simple("set", "w", lit_expr(0), "var w = "))
            kids.append(simple("set", "i", lit_expr(0), "var i = "))
            c = simple("wh", "", binx("lesser", atom_expr(var("i")), lit_expr(2)), "while (", ind=1)
            lines[-1] = (1, lines[-1][1][:-2] + ") {", lines[-1][2], lines[-1][3], lines[-1][4])
            ei, et, rg = build_expr(pg, toks, [0], amap, P)
            wv = atom_expr(var("w"))
            et2 = "(" + et + ")" if pg.exprs[ei - 1]["k"] not in ("num", "var", "sig") else et
            sh = 1 if et2 != et else 0
            text = "%s + %s" % (wv[1], et2)
            off = len(wv[1]) + 3
            top = pg.node({"k": "bin", "op": "add", "l": wv[0], "r": ei})
            full = (top, text, wv[2] + [(j, a + off + sh, b + off + sh) for (j, a, b) in rg] + [(top, 0, len(text))])
            b1 = simple("set", "w", full, "w = ", ind=2)
            b2 = simple("set", "i", binx("add", atom_expr(var("i")), lit_expr(1)), "i = ", ind=2)
            lines.append((1, "}", [], 0, 0))
            pg.stmts[c - 1]["t"] = pg.stmt({"k": "blk", "kids": [b1, b2]})
            kids.append(c)
            kids.append(simple("nop", "o1", atom_expr(var("w")), "o1 <-- "))
        elif ctx in ("t_array_if", "t_array_seq"):
            # element-wise updates of a local array in different blocks, then a read of one element
            def idx_expr(arr, i):
                ii = num(i)
                ix = pg.node({"k": "idx", "x": arr, "l": ii})
                t = "%s[%d]" % (arr, i)
                return (ix, t, [(ii, len(arr) + 1, len(arr) + 2), (ix, 0, len(t))])

            def seti(arr, i, etoks_or_tuple, ind):
                ii = num(i)
                if isinstance(etoks_or_tuple, tuple):
                    ei, et, rg = etoks_or_tuple
                else:
                    ei, et, rg = build_expr(pg, etoks_or_tuple, [0], amap, P)
                si = pg.stmt({"k": "seti", "x": arr, "e": ei, "e2": ii})
                pre = "%s[%d] = " % (arr, i)
                lines.append((ind, pre + et + ";", rg, si, len(pre)))
                return si
            da = pg.stmt({"k": "decla", "x": "arr", "t": 2})
            lines.append((1, "var arr[2];", [], da, 0))
            kids.append(da)
            kids.append(seti("arr", 0, toks, 1))
            if ctx == "t_array_if":
                c = simple("if", "", binx("greater", atom_expr(var("n")), lit_expr(0)), "if (", ind=1)
                lines[-1] = (1, lines[-1][1][:-2] + ") {", lines[-1][2], lines[-1][3], lines[-1][4])
                b1 = seti("arr", 1, lit_expr(1), 2)
                b2 = simple("nop", "o1", idx_expr("arr", 0), "o1 <-- ", ind=2)
                lines.append((1, "}", [], 0, 0))
                pg.stmts[c - 1]["t"] = pg.stmt({"k": "blk", "kids": [b1, b2]})
                kids.append(c)
            else:
                kids.append(seti("arr", 1, lit_expr(1), 1))
                kids.append(simple("nop", "o1", idx_expr("arr", 0), "o1 <-- "))
        elif ctx == "t_array_loop":
            # a local array untouched before a loop, two element updates of different degree in the body (the constant one
            # first), a read of the array between them, used after the loop
            def idx_expr2(arr, i):
                ii = num(i)
                ix = pg.node({"k": "idx", "x": arr, "l": ii})
                t = "%s[%d]" % (arr, i)
                return (ix, t, [(ii, len(arr) + 1, len(arr) + 2), (ix, 0, len(t))])

            def seti2(arr, i, e3, ind):
                ii = num(i)
                ei, et, rg = e3 if isinstance(e3, tuple) else build_expr(pg, e3, [0], amap, P)
                si = pg.stmt({"k": "seti", "x": arr, "e": ei, "e2": ii})
                pre = "%s[%d] = " % (arr, i)
                lines.append((ind, pre + et + ";", rg, si, len(pre)))
                return si
            da = pg.stmt({"k": "decla", "x": "arr", "t": 2})
            lines.append((1, "var arr[2];", [], da, 0))
            kids.append(da)
            kids.append(simple("set", "w", lit_expr(0), "var w = "))
            kids.append(simple("set", "i", lit_expr(0), "var i = "))
            c = simple("wh", "", binx("lesser", atom_expr(var("i")), lit_expr(2)), "while (", ind=1)
            lines[-1] = (1, lines[-1][1][:-2] + ") {", lines[-1][2], lines[-1][3], lines[-1][4])
            b1 = seti2("arr", 0, lit_expr(1), 2)
            b2 = simple("set", "w", idx_expr2("arr", 1), "w = ", ind=2)
            b3 = seti2("arr", 1, toks, 2)
            b4 = simple("set", "i", binx("add", atom_expr(var("i")), lit_expr(1)), "i = ", ind=2)
            lines.append((1, "}", [], 0, 0))
            pg.stmts[c - 1]["t"] = pg.stmt({"k": "blk", "kids": [b1, b2, b3, b4]})
            kids.append(c)
            kids.append(simple("nop", "o1", atom_expr(var("w")), "o1 <-- "))
        elif ctx == "t_join":
            kids.append(simple("set", "w", toks, "var w = "))
            c = simple("if", "", binx("eq", atom_expr(var("n")), lit_expr(1)), "if (", ind=1)
            lines[-1] = (1, lines[-1][1][:-2] + ") {", lines[-1][2], lines[-1][3], lines[-1][4])
            b = simple("set", "w", atom_expr(sig(2)), "w = ", ind=2)
            lines.append((1, "}", [], 0, 0))
            pg.stmts[c - 1]["t"] = pg.stmt({"k": "blk", "kids": [b]})
            kids.append(c)
            kids.append(simple("nop", "o1", atom_expr(var("w")), "o1 <-- "))
    root = pg.stmt({"k": "blk", "kids": kids})
    return assemble(pg, lines, root, template)


def assemble(pg, lines, root, template):
    if template:
        head = "template T(n, m) {\n  signal input in1;\n  signal input in2;\n" + "".join("  signal output o%d;\n" % i for i in range(1, pg.nsig + 1))
    else:
        head = "function f(n, m) {\n"
    text = head
    ranges, stmt_span = {}, {}
    for (ind, t, rg, si, off) in lines:
        pad = "  " * ind
        start = len(text.encode()) + len(pad)
        for (ei, s0, e0) in rg:
            kc = pg.exprs[ei - 1]["k"]
            kc = ("idx" if pg.exprs[ei - 1]["v"] == 3 else "var") if kc == "sig" else kc     # a port `c.o` is exported as an access node
            if kc == "un" and pg.exprs[ei - 1]["op"] == "sq":
                kc = "call"
            ranges[(start + off + s0, start + off + e0, kc)] = (si, ei)
        if si:
            end = start + len(t) - (1 if t.endswith(";") else 0)
            stmt_span[si] = (start, end)
        text += pad + t + "\n"
    text += "}\n"
    prog = {"kind": "ok", "params": ["n", "m"], "exprs": pg.exprs, "stmts": pg.stmts, "root": root, "template": template,
            "inputs": ["in1", "in2"] if template else [], "signals": [list(x) for x in pg.signals]}
    return text, prog, ranges, stmt_span


KCLASS = {"infix": "bin", "prefix": "un", "switch": "tern", "var": "var", "num": "num", "access": "idx", "call": "call"}


def claims_from(doc, prog, ranges, stmt_span, P, want=("val", "deg")):
    """attach the real analysis' claims (SSA export + findings) to the abstract statements. Returns counters."""
    stats = {"val": 0, "deg": 0, "unmapped": 0, "cs0009": 0, "cs0013": 0}
    for st in prog["stmts"]:
        st["claims"] = []
    seen = set()

    def add(si, cl):
        key = (si, cl["kind"], cl["e"], cl["v"], cl["hi"], cl["isbool"])
        if key not in seen:
            seen.add(key)
            prog["stmts"][si - 1]["claims"].append(cl)

    def walk(e):
        if not isinstance(e, dict) or "k" not in e:
            return
        kc = KCLASS.get(e["k"])
        if kc and (e.get("val") is not None or e.get("deg") is not None):
            hit = ranges.get((e["s"], e["e"], kc))
            if hit is None:
                stats["unmapped"] += 1
            else:
                si, ei = hit
                if e.get("val") is not None and "val" in want:
                    v = e["val"]
                    if "b" in v:
                        add(si, {"kind": "val", "e": ei, "v": 1 if v["b"] else 0, "isbool": True, "hi": 0, "nid": ei})
                    else:
                        add(si, {"kind": "val", "e": ei, "v": int(v["n"]) % (2 ** 30), "isbool": False, "hi": 0, "nid": ei})
                    stats["val"] += 1
                if e.get("deg") is not None and "deg" in want and e["deg"][1] <= 2:
                    add(si, {"kind": "deg", "e": ei, "v": 0, "isbool": False, "hi": e["deg"][1], "nid": ei})
                    stats["deg"] += 1
        for f in ("l", "r", "c", "t", "f"):
            if isinstance(e.get(f), dict):
                walk(e[f])
        for a in e.get("args", []) or []:
            walk(a)
        for a in e.get("acc", []) or []:
            if isinstance(a, dict) and "i" in a:
                walk(a["i"])
    for b in doc["ssa"]["blocks"]:
        for s in b["stmts"]:
            for f in ("rhe", "cond", "value", "lhe", "arg"):
                if isinstance(s.get(f), dict):
                    walk(s[f])
            # the value attached to the assignment itself = the value of its right-hand side
            if s["k"] == "sub" and s.get("val") is not None and s["rhe"]["k"] != "phi" and "val" in want:
                r = s["rhe"]
                hit = ranges.get((r["s"], r["e"], KCLASS.get(r["k"], "?")))
                if hit:
                    v = s["val"]
                    add(hit[0], {"kind": "val", "e": hit[1], "v": (1 if v["b"] else 0) if "b" in v else int(v["n"]) % (2 ** 30),
                                 "isbool": "b" in v, "hi": 0, "nid": hit[1]})
    for f in doc.get("findings", []):
        if f["id"] == "CS0009" and f["primary"] and "val" in want:
            l = f["primary"][0]
            hits = [(k, v) for k, v in ranges.items() if k[0] == l["s"] and k[1] == l["e"]]
            for k, (si, ei) in hits:
                add(si, {"kind": "val", "e": ei, "v": 1 if "always true" in l["msg"] else 0, "isbool": True, "hi": 0, "nid": ei})
                stats["cs0009"] += 1
        if f["id"] == "CS0013" and f["primary"] and "deg" in want:
            l = f["primary"][0]
            for si, (s, e) in stmt_span.items():
                if s == l["s"] and e == l["e"] and prog["stmts"][si - 1]["e"]:
                    ei = prog["stmts"][si - 1]["e"]
                    add(si, {"kind": "deg", "e": ei, "v": 0, "isbool": False, "hi": 2, "nid": ei})
                    stats["cs0013"] += 1
    return stats


def validate(recs, name, P, K=2, chunk=1200, workers=12, module="Semantics"):
    wd = os.path.join(vlib.BUILD, "work", name)
    rejects, states, gen = {}, 0, 0
    cfg = os.path.join(wd, "sem.cfg")
    open(cfg, "w").write("SPECIFICATION Spec\nCONSTANTS\n  P = %d\n  K = %d\nINVARIANT ClaimsHold\nINVARIANT Consumed\nCHECK_DEADLOCK FALSE\n" % (P, K))
    for off in range(0, len(recs), chunk):
        part = recs[off:off + chunk]
        tpath = os.path.join(wd, "sem.trace.ndjson")
        write_ndjson(tpath, part)
        tr = run_tlc(module, cfg, name, workers=workers, env={"TRACE": tpath}, tags=("REJECT", "CONSUMED"), cases_suffix="-strace",
                     timeout=3000, xmx="12g")
        states += tr.distinct
        gen += tr.generated
        if not any(t == "CONSUMED" for t, _ in tr.prints):
            raise vlib.ToolError("%s did not consume the whole trace" % module)
        for tag, s in tr.prints:
            if tag == "REJECT":
                d = json.loads(s)
                rejects.setdefault((d["idx"] - 1 + off, d["why"], d.get("nid", 0)), True)
    return sorted(rejects), states, gen


def run_check(prop, tier, want, budgets=False):
    """Shared driver of C06 (want = val), C07 (want = deg) and C20 (both, every pass budget)."""
    from vlib import Verdict
    v = Verdict(prop, tier, "model_checking")
    name = prop.lower()
    wd = os.path.join(vlib.BUILD, "work", name)
    os.makedirs(wd, exist_ok=True)
    vlib.build_harness()
    seed = vlib.seed()
    primes = [5] if tier == "quick" else [5, 7]
    steps = {"C06": (9, 11), "C07": (8, 10), "C20": (7, 9)}[prop][0 if tier == "quick" else 1]
    inst = 2 if tier == "quick" else 3
    skels = []
    gstates = ggen = 0
    for template in (False, True):
        c = os.path.join(wd, "gen.cfg")
        open(c, "w").write("SPECIFICATION Spec\nCONSTANTS\n  MaxSteps = %d\n  MaxLen = 24\n  Template = %s\n  Arrays = FALSE\nINVARIANT Emit\nCHECK_DEADLOCK FALSE\n" %
                           (steps if not template else steps - 1, "TRUE" if template else "FALSE"))
        g = run_tlc("SemGen", c, name, workers=8, cases_suffix="-%s" % template, timeout=1800)
        gstates += g.distinct
        ggen += g.generated
        skels += [(x["toks"], template) for x in read_ndjson(g.cases_path)]
        # skeletons with local arrays (declaration, element-wise assignment; reads come from the expression atoms)
        open(c, "w").write("SPECIFICATION Spec\nCONSTANTS\n  MaxSteps = %d\n  MaxLen = 24\n  Template = %s\n  Arrays = TRUE\nINVARIANT Emit\nCHECK_DEADLOCK FALSE\n" %
                           (steps - 2, "TRUE" if template else "FALSE"))
        ga = run_tlc("SemGen", c, name, workers=8, cases_suffix="-arr%s" % template, timeout=1800)
        gstates += ga.distinct
        ggen += ga.generated
        skels += [(x["toks"], template) for x in read_ndjson(ga.cases_path) if "DA" in x["toks"] and "SA" in x["toks"]]
    # expressions: depth 1 exhaustively (all operators x all atom pairs), depth 2 by TLC's simulation mode
    ALLB = '"mul", "div", "add", "sub", "pow", "idiv", "mod_op", "shift_l", "shift_r", "lesser_eq", "greater_eq", "lesser", "greater", "eq", "not_eq", "bool_or", "bool_and", "bit_or", "bit_and", "bit_xor"'
    ec = os.path.join(wd, "expr.cfg")
    atoms1 = ('"sa", "sb", "pn", "lv", "k0", "k1", "k2", "k3"' if (prop == "C06" or tier == "thorough") else '"sa", "sb", "pn", "lv", "k2", "k3"') if prop != "C20" else ('"sa", "lv", "k2"' if tier == "quick" else '"sa", "pn", "lv", "k2"')
    open(ec, "w").write('SPECIFICATION Spec\nCONSTANTS\n  Deep = FALSE\n  Atoms = {%s}\n  BinOps = {%s}\n  UnOps = {"prefix_sub", "not", "complement_256"}\n'
                        'INVARIANT Emit\nCHECK_DEADLOCK FALSE\n' % (atoms1, ALLB))
    eg = run_tlc("ExprGen", ec, name, workers=4, cases_suffix="-expr", timeout=1800)
    expr_cases = [x["toks"] for x in read_ndjson(eg.cases_path)]
    open(ec, "w").write('SPECIFICATION Spec\nCONSTANTS\n  Deep = TRUE\n  Atoms = {"sa", "sb", "pn", "lv", "k2", "k3"}\n  BinOps = {%s}\n  UnOps = {"prefix_sub", "not", "complement_256"}\n'
                        'INVARIANT Emit\nCHECK_DEADLOCK FALSE\n' % ALLB)
    ndeep = {"C06": 600, "C07": 600, "C20": 60}[prop] * (1 if tier == "quick" else 3)
    eg2 = run_tlc("ExprGen", ec, name, workers=2, cases_suffix="-deep", simulate=ndeep, depth=12, timeout=600)
    deep = [x["toks"] for x in read_ndjson(eg2.cases_path)]
    random.Random(seed).shuffle(deep)
    expr_cases += deep[:ndeep]
    if prop in ("C07", "C20"):
        # calls of a known function (sq(x) = x * x) on arguments of every degree, nested, and on arguments of unknown degree
        calls = [["un", "sq", "atom", a] for a in ("sa", "pn", "lv", "k2")] + \
                [["un", "sq", "un", "sq", "atom", "sa"], ["un", "sq", "tern", "atom", "sa", "atom", "sa", "atom", "pn"],
                 ["bin", "mul", "un", "sq", "un", "sq", "atom", "sa", "atom", "sb"], ["bin", "add", "un", "sq", "atom", "sa", "atom", "sb"],
                 ["un", "sq", "bin", "mul", "atom", "sa", "atom", "sb"], ["un", "sq", "bin", "lesser", "atom", "sa", "atom", "pn"]]
        expr_cases = calls + expr_cases
        ndepth1_extra = len(calls)
    else:
        ndepth1_extra = 0
    gstates += eg.distinct
    ggen += eg.generated
    total_states = total_gen = 0
    nrec = nclaims = nonvac = unmapped = 0
    samples = []
    for P in primes:
        progs = []
        for k, (toks, template) in enumerate(skels):
            if template and not any(t in ("G", "Q") for t in toks) and k % 3:
                continue            # templates without signal statements add little over functions
            for j in range(inst):
                text, prog, ranges, span = instantiate(toks, P, seed * 1000003 + k * 17 + j, template)
                progs.append((text, prog, ranges, span))
        if prop == "C06":
            # nesting chains (SemChains.tla) with a literal initialiser: the constant known before the chain must not survive it
            for template in (False, True):
                cc = os.path.join(wd, "chains.cfg")
                open(cc, "w").write("SPECIFICATION Spec\nCONSTANTS\n  Depth = %d\n  Template = %s\nINVARIANT Emit\nCHECK_DEADLOCK FALSE\n" %
                                   (2 if tier == "quick" else 3, "TRUE" if template else "FALSE"))
                gch = run_tlc("SemChains", cc, name, workers=2, cases_suffix="-ch%s%d" % (template, P), timeout=600)
                for kk, x in enumerate(read_ndjson(gch.cases_path)):
                    if x["toks"][0] not in ("DL", "D0") or "Gt" in x["toks"]:      # family `viasig` is for the effects executor (C09) only
                        continue
                    for j in range(inst):
                        text, prog, ranges, span = instantiate(x["toks"], P, seed * 104729 + kk * 7 + j, template)
                        progs.append((text, prog, ranges, span))
        # ---- second family: every expression of ExprGen.tla in the data-flow contexts
        ctxs = {"C06": FUNC_CTX, "C07": TEMPL_CTX, "C20": ["f_join", "f_loop", "t_loop", "t_join", "t_array_if", "t_operand_join", "t_array_loop"]}[prop]
        k3 = set()          # programs with three indeterminates (in1, in2 and a component port)
        ndepth1 = len(expr_cases) - len(deep[:ndeep])       # the handcrafted call expressions come first and count as depth 1
        for j, ec in enumerate(expr_cases):
            # depth-1 expressions go through every context; in the quick tier each sampled deeper one through three of them (rotating)
            # sampled deeper expressions: three contexts each in the quick tier, four in the thorough tier (all of them over F_5 only)
            if j < ndepth1 or len(ctxs) <= 3:
                use = ctxs
            elif tier == "quick":
                use = [ctxs[(j + d) % len(ctxs)] for d in (0, 1, 3)]
            else:
                use = [ctxs[(j + d) % len(ctxs)] for d in (0, 1, 3, 5)] if P == 5 else []
            for ctx in use:
                if ctx == "t_port" and ((tier == "quick" and (j % 3 or j >= ndepth1)) or (tier != "quick" and (P != 5 or j >= ndepth1))):
                    continue        # three indeterminates: 125-point tables over F_5; quick: every third depth-1 expression, thorough: all depth-1 ones
                progs.append(expr_program(ec, ctx, P))
                if ctx == "t_port":
                    k3.add(len(progs) - 1)
        jobs = [{"id": i, "src": t, "prime": str(P), "passes": True} for i, (t, _, _, _) in enumerate(progs)]
        base_docs = None
        rounds = [(-1, -1)]
        pin, pout = os.path.join(wd, "ir.in"), os.path.join(wd, "ir.out")
        write_ndjson(pin, jobs)
        vh(["irdump", pin, pout], timeout=3000)
        docs = list(read_ndjson(pout))
        recs, meta = [], []
        if budgets:
            # every cut point: value budget 0..Bv with unlimited degrees, degree budget 0..Bd with unlimited values, and the diagonal
            bjobs, bmeta = [], []
            for i, d in enumerate(docs):
                if "ssa" not in d:
                    continue
                bv, bd = d["passes_run"]["v"], d["passes_run"]["d"]
                grid = set([(x, -1) for x in range(0, bv + 1)] + [(-1, y) for y in range(0, bd + 1)] + [(z, z) for z in range(0, max(bv, bd) + 1)])
                for (x, y) in sorted(grid):
                    bjobs.append({"id": len(bjobs), "src": progs[i][0], "prime": str(P), "passes": True, "budget": {"v": x, "d": y}})
                    bmeta.append((i, x, y))
            write_ndjson(pin, bjobs)
            vh(["irdump", pin, pout], timeout=3000)
            bdocs = list(read_ndjson(pout))
            pairs = [(bmeta[j][0], bdocs[j], bmeta[j][1:]) for j in range(len(bdocs))]
        else:
            pairs = [(i, d, None) for i, d in enumerate(docs)]
        if budgets:
            # claims are judged one by one, so all cut points of one program are validated together: the record carries the
            # union of the claims made at any budget (each remembered with the budgets at which it was made)
            merged = {}
            for i, d, bud in pairs:
                merged.setdefault(i, []).append((d, bud))
            pairs2 = []
            for i, lst_ in merged.items():
                text, prog0, ranges, span = progs[i]
                union = json.loads(json.dumps(prog0))
                for st in union["stmts"]:
                    st["claims"] = []
                where = {}
                ok = True
                for d, bud in lst_:
                    if "panic" in d:
                        v.violation("%s:panic %s" % (name, d["panic"]["site"]), {"source": text, "prime": P, "budget": bud, "panic": d["panic"]})
                        ok = False
                        continue
                    if "ssa" not in d:
                        continue
                    tmp = json.loads(json.dumps(prog0))
                    st = claims_from(d, tmp, ranges, span, P, want)
                    nclaims += st["val"] + st["deg"] + st["cs0009"] + st["cs0013"]
                    unmapped += st["unmapped"]
                    for k_, stt in enumerate(tmp["stmts"]):
                        for cl in stt["claims"]:
                            key = json.dumps(cl, sort_keys=True)
                            if (k_, key) not in where:
                                where[(k_, key)] = []
                                union["stmts"][k_]["claims"].append(cl)
                            where[(k_, key)].append(list(bud))
                if any(s_["claims"] for s_ in union["stmts"]):
                    nonvac += 1
                recs.append(union)
                meta.append({"source": text, "prime": P, "budget": None, "K": 3 if i in k3 else 2,
                             "budgets_of_claims": {"%d:%s" % (k_, key): b for (k_, key), b in where.items()}})
            pairs = []
        for i, d, bud in pairs:
            text, prog0, ranges, span = progs[i]
            if "panic" in d:
                v.violation("%s:panic %s" % (name, d["panic"]["site"]), {"source": text, "prime": P, "budget": bud, "panic": d["panic"]})
                continue
            if not d.get("parse"):
                raise vlib.ToolError("generated program does not parse:\n" + text)
            if "ssa" not in d:
                continue        # lifting errors (e.g. a local read on a path where it is not assigned) are not claims
            prog = json.loads(json.dumps(prog0))
            st = claims_from(d, prog, ranges, span, P, want)
            nclaims += st["val"] + st["deg"] + st["cs0009"] + st["cs0013"]
            unmapped += st["unmapped"]
            if any(s["claims"] for s in prog["stmts"]):
                nonvac += 1
            recs.append(prog)
            meta.append({"source": text, "prime": P, "budget": bud, "K": 3 if i in k3 else 2})
        rej = []
        for K in (2, 3):
            idxs = [j for j, m_ in enumerate(meta) if m_.get("K", 2) == K]
            if not idxs:
                continue
            r_, states, gen = validate([recs[j] for j in idxs], name, P, K=K)
            rej += [(idxs[i_], why_, nid_) for (i_, why_, nid_) in r_]
            total_states += states
            total_gen += gen
        nrec += len(recs)
        for idx, why, nid in rej:
            m = dict(meta[idx])
            prog = recs[idx]
            node = prog["exprs"][nid - 1] if nid else None
            m["node"] = node
            m["claims_on_node"] = [c for s in prog["stmts"] for c in s["claims"] if c["nid"] == nid]
            if budgets:
                boc = m.pop("budgets_of_claims", {})
                m["budgets_at_which_the_claim_was_made"] = sorted(set(tuple(b) for key, bs in boc.items() for b in bs
                                                                      if any(json.dumps(c, sort_keys=True) in key for c in m["claims_on_node"])))[:12]
            kind = "cut:" if budgets else ""
            v.violation("%s:%s%s" % (name, kind, why), m)
        samples += [{"source": progs[0][0], "prime": P}, {"source": progs[len(progs) // 2][0], "prime": P}]
    timebox = None
    if budgets:
        # the REAL time box: a definition whose value and degree propagation are still progressing after 10 s of wall clock
        # (pass budgets cut the loops within milliseconds; only a real expiry exercises the bail-out itself)
        n = 2500 if tier == "quick" else 4000
        src = "template Table() {\n    signal input in;\n    signal output out;\n    var c0 = 7;\n" + \
              "".join("    var c%d = (c%d * 5 + %d) * (c%d + 3) + %d;\n" % (i, i - 1, 2 * i + 1, i - 1, i) for i in range(1, n)) + \
              "    out <== in * c%d;\n}\n" % (n - 1)
        pin, pout = os.path.join(wd, "tb.in"), os.path.join(wd, "tb.out")
        write_ndjson(pin, [{"id": 0, "src": src, "passes": True}])
        import time as _t
        t0 = _t.time()
        pr = vh(["irdump", pin, pout], timeout=900, check=False)
        dt = _t.time() - t0
        docs_tb = list(read_ndjson(pout)) if pr.returncode == 0 and os.path.exists(pout) else []
        d0 = docs_tb[0] if docs_tb else {}
        timebox = {"statements": n, "seconds": round(dt, 1), "passes_run": d0.get("passes_run")}
        if pr.returncode != 0 or "panic" in d0 or "ssa" not in d0:
            v.violation("%s:the tool does not complete normally when the real time box fires" % name,
                        {"source": src[:600] + "\n    ... (%d statements of this shape)\n" % n, "prime": "BN254", "seconds": round(dt, 1),
                         "panic": d0.get("panic"), "stderr": (pr.stderr or "")[-500:]})
        elif dt < 10:
            v.note("the time-box program finished in %.1f s: the real time box was not reached on this machine" % dt)
    cov = {"states": total_states + gstates, "transitions": total_gen + ggen, "traces_validated_against_impl": nrec, "exhaustive": False,
           "evaluations": nrec, "distinct_nontrivial": nonvac, "real_time_box": timebox,
           "rule": "every statement skeleton SemGen.tla derives in <= %d steps (functions and templates: %d skeletons), %d seeded instances "
                   "each (operators over all 20 infix / 3 prefix / ternary, literals 0..P+1, two parameters, up to four locals, two input "
                   "signals) plus every depth-1 expression of ExprGen.tla (all operators x all atom pairs; %d expressions incl. sampled depth-2 ones) in the "
                   "data-flow contexts direct / through a local / loop / join, analysed by the real code over F_P (hook H3) for P in %s%s; %d claims mapped onto abstract nodes (%d IR nodes "
                   "with a claim had no abstract counterpart and are not judged); every execution (all parameter valuations, all paths, all "
                   "signal valuations as tables) explored by TLC; non-trivial = records with at least one claim" %
                   (steps, len(skels), inst, len(expr_cases), primes, ", for every pass budget of value and degree propagation (hook H2)" if budgets else "",
                    nclaims, unmapped),
           "samples": samples[:4]}
    return v.finish(cov, assumptions=[
        "the tool and the reference executor work over the same small prime field F_P (hook H3); the three real primes are covered operator by operator by C16",
        "conditions of the fragment are signal-free; executions with a signal-dependent condition are abandoned, not judged",
        "function calls, signal arrays and component ports are outside the executor's fragment (claims about them are not judged); local arrays are in, with indices that are constant over the signal valuations"])


# ------------------------------------------------------------------ C09: effects / self-composition

def mentions_exported(prog, e, exported):
    if not e:
        return False
    nd = prog["exprs"][e - 1]
    if nd["k"] == "sig":
        return True
    if nd["k"] == "sigv":
        return nd["x"] in exported
    return any(mentions_exported(prog, nd[f], exported) for f in ("l", "r", "c") if nd.get(f))


def to_effects(prog, findings, stmt_span, text):
    """abstract program -> record for SemanticsEffects.tla with the flagged sites of CS0006/7/8"""
    import re
    pr = json.loads(json.dumps(prog))
    exported = set(["in1", "in2"] + [nm for nm, inter in pr.get("signals", []) if not inter])
    for nd in pr["exprs"]:
        if nd["k"] == "sig":
            nd["k"], nd["x"] = "sigv", "in%d" % nd["v"]
    for st in pr["stmts"]:
        st["claims"] = []
        if st["k"] == "nop" and st.get("fx"):
            st["k"] = st["fx"]
        if st["k"] in ("sigset", "ceq"):
            st["mentions_exported"] = bool(st["exported"]) or mentions_exported(prog, st["e"], exported) or mentions_exported(prog, st["e2"], exported)
    sites = []
    for f in findings:
        if f["id"] not in ("CS0006", "CS0007", "CS0008") or not f["primary"]:
            continue
        l = f["primary"][0]
        m = re.search(r"[Tt]he parameter `([^`]+)`", f["msg"])
        if m:
            sites.append({"k": "param", "x": m.group(1), "sid": 0, "code": f["id"], "msg": f["msg"]})
            continue
        hit = [si for si, (a, b) in stmt_span.items() if (a, b) == (l["s"], l["e"])]
        if len(hit) == 1 and pr["stmts"][hit[0] - 1]["k"] in ("set", "sigset", "seti"):
            sites.append({"k": "stmt", "x": "", "sid": hit[0], "code": f["id"], "msg": f["msg"]})
        else:
            sites.append({"k": "unmapped", "x": "", "sid": 0, "code": f["id"], "msg": f["msg"]})
    pr["sites_all"] = sites
    pr["sites"] = [x for x in sites if x["k"] != "unmapped"]
    if not pr["sites"]:
        pr["kind"] = "skip"
    return pr


def run_effects(tier):
    from vlib import Verdict
    prop, name = "C09", "c09"
    v = Verdict(prop, tier, "model_checking")
    wd = os.path.join(vlib.BUILD, "work", name)
    os.makedirs(wd, exist_ok=True)
    vlib.build_harness()
    seed = vlib.seed()
    P = 3
    steps = 9 if tier == "quick" else 11
    inst = 2 if tier == "quick" else 4
    skels, gstates, ggen = [], 0, 0
    for template in (False, True):
        c = os.path.join(wd, "gen.cfg")
        open(c, "w").write("SPECIFICATION Spec\nCONSTANTS\n  MaxSteps = %d\n  MaxLen = 24\n  Template = %s\n  Arrays = FALSE\nINVARIANT Emit\nCHECK_DEADLOCK FALSE\n" %
                           (steps if not template else steps - 1, "TRUE" if template else "FALSE"))
        g = run_tlc("SemGen", c, name, workers=8, cases_suffix="-%s" % template, timeout=1800)
        gstates += g.distinct
        ggen += g.generated
        skels += [(x["toks"], template) for x in read_ndjson(g.cases_path)]
        # skeletons with local arrays (declaration, element-wise assignment with literal or variable index; reads in the expressions)
        open(c, "w").write("SPECIFICATION Spec\nCONSTANTS\n  MaxSteps = %d\n  MaxLen = 24\n  Template = %s\n  Arrays = TRUE\nINVARIANT Emit\nCHECK_DEADLOCK FALSE\n" %
                           (steps - 2 if not template else steps - 3, "TRUE" if template else "FALSE"))
        ga = run_tlc("SemGen", c, name, workers=8, cases_suffix="-arr%s" % template, timeout=1800)
        gstates += ga.distinct
        ggen += ga.generated
        skels += [(x["toks"], template) for x in read_ndjson(ga.cases_path) if "DA" in x["toks"] and "SA" in x["toks"]]
    # nesting chains (SemChains.tla): an accumulator updated under every nesting of if / if-else arms / while up to the depth bound
    chains = []
    for template in (False, True):
        c = os.path.join(wd, "chains.cfg")
        open(c, "w").write("SPECIFICATION Spec\nCONSTANTS\n  Depth = %d\n  Template = %s\nINVARIANT Emit\nCHECK_DEADLOCK FALSE\n" %
                           (2 if tier == "quick" else 3, "TRUE" if template else "FALSE"))
        g = run_tlc("SemChains", c, name, workers=2, cases_suffix="-ch%s" % template, timeout=600)
        gstates += g.distinct
        ggen += g.generated
        chains += [(x["toks"], template) for x in read_ndjson(g.cases_path)]
    progs = []
    for k, (toks, template) in enumerate(skels):
        for j in range(inst):
            progs.append(instantiate(toks, P, seed * 1000003 + k * 31 + j, template, effects=True))
    for k, (toks, template) in enumerate(chains):
        for j in range(inst + 1):
            progs.append(instantiate(toks, P, seed * 7919 + k * 13 + j, template, effects=True))
    pin, pout = os.path.join(wd, "ir.in"), os.path.join(wd, "ir.out")
    write_ndjson(pin, [{"id": i, "src": t, "prime": str(P), "passes": True} for i, (t, _, _, _) in enumerate(progs)])
    vh(["irdump", pin, pout], timeout=3000)
    recs, meta = [], []
    nsites = unmapped = 0
    for (text, prog, ranges, span), d in zip(progs, read_ndjson(pout)):
        if "panic" in d:
            v.violation("c09:panic %s" % d["panic"]["site"], {"source": text, "panic": d["panic"]})
            continue
        if "ssa" not in d:
            continue
        rec = to_effects(prog, d.get("findings", []), span, text)
        nsites += len(rec["sites"])
        unmapped += len(rec["sites_all"]) - len(rec["sites"])
        if rec["kind"] == "skip":
            continue
        recs.append(rec)
        meta.append({"source": text})
    rej, states, gen = validate_effects(recs, name, P)
    for idx, why, site in rej:
        m = dict(meta[idx])
        m["site"] = recs[idx]["sites"][site - 1]
        v.violation("c09:%s:%s" % (m["site"]["code"], why), m)
    cov = {"states": states + gstates, "transitions": gen + ggen, "traces_validated_against_impl": len(recs), "exhaustive": False,
           "evaluations": len(progs), "distinct_nontrivial": len(recs),
           "rule": "every nesting chain of SemChains.tla (accumulator updated under if / else / while nests, used afterwards); every statement skeleton SemGen.tla derives in <= %d steps (functions and templates, %d skeletons), %d seeded instances each "
                   "(locals, parameters, input / output / intermediate signals, constraints, assertions, loops, branches), analysed by the real "
                   "code; %d flagged sites (CS0006/CS0007/CS0008) mapped onto abstract assignment statements or parameters (%d findings could "
                   "not be mapped and are not judged); for every flagged site TLC runs the definition twice in lock step over F_3 for every "
                   "valuation of parameters and input signals and every replacement value; non-trivial = definitions with at least one "
                   "flagged site" % (steps, len(skels), inst, nsites, unmapped),
           "samples": [{"source": meta[i]["source"], "sites": recs[i]["sites"]} for i in range(0, min(len(recs), 3))]}
    return v.finish(cov, assumptions=["executed over F_3 (hook H3 for the tool, P = 3 for the reference executor)",
                                      "effects compared: values assigned to input/output signals, constraints mentioning them, assertion outcomes, "
                                      "return value, branch decisions (array dimensions: not generated yet)"])


def validate_effects(recs, name, P, chunk=600, workers=12):
    wd = os.path.join(vlib.BUILD, "work", name)
    rejects, states, gen = {}, 0, 0
    cfg = os.path.join(wd, "eff.cfg")
    open(cfg, "w").write("SPECIFICATION Spec\nCONSTANTS\n  P = %d\nINVARIANT ClaimsHold\nINVARIANT Consumed\nCHECK_DEADLOCK FALSE\n" % P)
    for off in range(0, len(recs), chunk):
        part = recs[off:off + chunk]
        tpath = os.path.join(wd, "eff.trace.ndjson")
        write_ndjson(tpath, part)
        tr = run_tlc("SemanticsEffects", cfg, name, workers=workers, env={"TRACE": tpath}, tags=("REJECT", "CONSUMED"), cases_suffix="-etrace",
                     timeout=3000, xmx="12g")
        states += tr.distinct
        gen += tr.generated
        if not any(t == "CONSUMED" for t, _ in tr.prints):
            raise vlib.ToolError("SemanticsEffects did not consume the whole trace")
        for tag, s0 in tr.prints:
            if tag == "REJECT":
                d = json.loads(s0)
                rejects.setdefault((d["idx"] - 1 + off, d["why"], d.get("nid", 0)), True)
    return sorted(rejects), states, gen
