"""Projects for the runner / pipeline / include checks (C02, C03, C17, C19): rendering of abstract
configurations into Circom files, keys of reports as the user sees them, records for
RunnerTrace.tla."""
import os, json, concurrent.futures, itertools
import vlib, cli

SARIF_LEVEL = {"error": "error", "warning": "warning", "info": "note"}


def render_conf(conf, kinds=None):
    """conf: {name: {named, liftOk, cfgRep, looks:[names]}} -> files list.
    Named definitions go to main.circom, the others to inc.circom (included by main)."""
    def tpl(name, c):
        # a definition that does not lift: repeated parameter names (the first stage fails, nothing else is reported), or - when it
        # also carries a CFG-stage warning - a read before the definition (SSA conversion fails AFTER the shadowing warning of the
        # first stage has been produced: both must reach the user)
        late_failure = (not c["liftOk"]) and c["cfgRep"]
        params = "n, n" if (not c["liftOk"] and not late_failure) else "n"
        body = ["  signal input a;", "  signal output o;"]
        if c["cfgRep"]:
            body += ["  var s = 1;", "  { var s = 2; }"]
        if late_failure:
            body += ["  var q = r + 1;", "  var r = 2;"]
        for e in sorted(c["looks"]):
            body += ["  component c%s = %s(1);" % (e, e), "  c%s.a <== a;" % e]
        body += ["  o <-- a + n;"]
        return "template %s(%s) {\n%s\n}\n" % (name, params, "\n".join(body))
    named = [d for d in sorted(conf) if conf[d]["named"]]
    other = [d for d in sorted(conf) if not conf[d]["named"]]
    main = "pragma circom 2.0.0;\n" + ('include "inc.circom";\n' if other else "") + "".join(tpl(d, conf[d]) for d in named)
    files = [{"path": "main.circom", "named": True, "text": main}]
    if other:
        files.append({"path": "inc.circom", "named": False, "text": "pragma circom 2.0.0;\n" + "".join(tpl(d, conf[d]) for d in other)})
    return files


def file_texts(files):
    return {f["path"]: f.get("text", "") for f in files}


def loc_class(rep, named_paths):
    if not rep["primary"]:
        return "none"
    return "named" if any(l["file"] in named_paths for l in rep["primary"]) else "included"


def keys(rep, texts):
    """(stdout key, sarif key) of a report in the harness's JSON form."""
    if rep["primary"]:
        first_file = rep["primary"][0]["file"]
        start = min(l["s"] for l in rep["primary"] if l["file"] == first_file)
        t = texts.get(first_file)
        if t is None:
            loc = "%s:?" % first_file
        else:
            line, col = cli.linecol(t, start)
            loc = "%s:%d:%d" % (first_file, line, col)
    else:
        loc = "-"
    key = "%s|%s|%s" % (rep["cat"], rep["msg"], loc)
    parts = []
    for l in rep["primary"]:
        t = texts.get(l["file"], "")
        sl, sc = cli.linecol(t, l["s"])
        el, ec = cli.linecol(t, l["e"])
        parts.append("%s:%d:%d-%d:%d" % (l["file"], sl, sc, el, ec))
    skey = "%s|%s|%s|%s" % (rep["id"], SARIF_LEVEL[rep["cat"]], rep["msg"], ";".join(parts))
    return key, skey


def produced_list(oracle_doc, files):
    """Oracle output -> list of produced reports in RunnerTrace's form (definitions of named files only,
    plus the parse stage)."""
    texts = file_texts(files)
    # which files are user-specified is decided by what was named on the command line (Ref), not by what the library believes
    ref_named = set(os.path.normpath(f["path"]) for f in files if f.get("named"))
    fid_path = {f["fid"]: os.path.normpath(f["path"]) for f in oracle_doc["files"]}
    named_paths = set(f["path"] for f in oracle_doc["files"] if os.path.normpath(f["path"]) in ref_named) if ref_named else \
        set(f["path"] for f in oracle_doc["files"] if f["named"])
    out = []
    for r in oracle_doc["parse"]:
        k, sk = keys(r, texts)
        out.append({"stage": "parse", "id": r["id"], "level": r["cat"], "loc": loc_class(r, named_paths), "key": k, "skey": sk})
    for d in oracle_doc["defs"]:
        is_named = (fid_path.get(d.get("fid")) in ref_named) if (ref_named and "fid" in d) else d["named"]
        if not is_named or "panic" in d:
            continue
        for r in d["cfg_reports"] + d["pass_reports"]:
            k, sk = keys(r, texts)
            out.append({"stage": d["name"], "id": r["id"], "level": r["cat"], "loc": loc_class(r, named_paths), "key": k, "skey": sk})
    return out


def named_defs(oracle_doc, files):
    """names of the definitions that live in files named on the command line (Ref's notion, see produced_list)"""
    ref_named = set(os.path.normpath(f["path"]) for f in files if f.get("named"))
    fid_path = {f["fid"]: os.path.normpath(f["path"]) for f in oracle_doc["files"]}
    return [d["name"] for d in oracle_doc["defs"]
            if ((fid_path.get(d.get("fid")) in ref_named) if (ref_named and "fid" in d) else d["named"])]


def diag_key(ev):
    loc = "%s:%d:%d" % (ev["loc"]["file"], ev["loc"]["line"], ev["loc"]["col"]) if ev["loc"] else "-"
    return "%s|%s|%s" % (ev["sev"], ev["msg"], loc)


def sarif_keys(sdoc):
    out = []
    for r in sdoc.get("results", []):
        parts = ["%s:%s:%s-%s:%s" % (l["file"], l["sl"], l["sc"], l["el"], l["ec"]) for l in r["locs"]]
        out.append("%s|%s|%s|%s" % (r["rule"], r["level"], r["msg"], ";".join(parts)))
    return out


def run_binary(files, root, opts=None, libs=None, extra_args=None, timeout=60):
    """Materialise, run the real binary, parse what the user sees. opts: {level, allow, sarif, verbose}."""
    opts = opts or {}
    named = cli.materialise(files, root)
    prefix = root.rstrip("/") + "/"
    argv = []
    if opts.get("level"):
        argv += ["--level", opts["level"]]
    for a in opts.get("allow", []):
        argv += ["--allow", a]
    sarif_path = None
    if opts.get("sarif"):
        sarif_path = os.path.join(root, "out.sarif")
        argv += ["--sarif-file", sarif_path]
    if opts.get("verbose"):
        argv += ["--verbose"]
    for l in libs or []:
        argv += ["-L", os.path.join(root, l)]
    argv += extra_args or []
    argv += named
    r = cli.run(argv, timeout=timeout)
    events = cli.parse_stdout(r["out"], prefix)
    sar = None
    if sarif_path:
        sar = cli.parse_sarif(sarif_path, prefix) if os.path.exists(sarif_path) else {"missing": True}
    return {"code": r["code"], "timeout": r["timeout"], "events": events, "stderr": r["err"][-2000:], "stdout": r["out"],
            "sarif": sar, "wall": r["wall"], "argv": [a.replace(prefix, "") for a in argv]}


def trace_record(run, produced, defs, opts):
    """One RunnerTrace record from a binary run."""
    evs = []
    for e in run["events"]:
        if e["e"] == "analyzing":
            evs.append({"e": "analyzing", "name": e["name"], "key": "", "n": 0})
        elif e["e"] == "diag":
            evs.append({"e": "diag", "name": "", "key": diag_key(e), "n": 0})
        elif e["e"] == "summary":
            evs.append({"e": "summary", "name": "", "key": "", "n": e["n"]})
        elif e["e"] == "stray":
            evs.append({"e": "diag", "name": "", "key": "stray|" + e["text"], "n": 0})
        else:
            evs.append({"e": "other", "name": "", "key": "", "n": 0})
    sar = run.get("sarif")
    son = bool(opts.get("sarif")) and sar is not None and "results" in sar
    return {"opts": {"level": opts.get("level", "warning").lower(), "allow": list(opts.get("allow", []))},
            "produced": produced, "defs": list(defs), "events": evs,
            "exit": run["code"] if run["code"] is not None else -1,
            "sarif": {"on": son, "keys": sarif_keys(sar) if son else []}}


def validate_traces(records, name, chunk=400):
    """Run RunnerTrace.tla over the records; returns list of (index, why) rejections and #states."""
    wd = os.path.join(vlib.BUILD, "work", name)
    os.makedirs(wd, exist_ok=True)
    rejects, states = [], 0
    for off in range(0, len(records), chunk):
        part = records[off:off + chunk]
        tpath = os.path.join(wd, "runner.trace.ndjson")
        vlib.write_ndjson(tpath, part)
        tr = vlib.run_tlc("RunnerTrace", "RunnerTrace.cfg", name, workers=1, env={"TRACE": tpath}, tags=("REJECT",),
                          cases_suffix="-rtrace", timeout=1800)
        states += tr.distinct
        if tr.postcondition_failed or tr.distinct != len(part) + 1:
            raise vlib.ToolError("RunnerTrace did not consume the whole trace (%d of %d)" % (tr.distinct - 1, len(part)))
        for tag, s in tr.prints:
            d = json.loads(s)
            rejects.append((d["idx"] - 1 + off, d["why"]))
    return rejects, states


def par_runs(jobs, fn, workers=10):
    with concurrent.futures.ThreadPoolExecutor(workers) as ex:
        return list(ex.map(fn, jobs))
