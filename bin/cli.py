"""Driving the real `circomspect` binary and turning what the user sees (stdout, SARIF, exit status)
into events for the trace specifications (RunnerTrace.tla, PipelineTrace.tla)."""
import os, re, json, shutil, base64
import vlib

HEADER = re.compile(r"^(error|warning|note|help|bug)(?:\[([A-Za-z0-9]+)\])?: (.*)$")
LOC = re.compile(r"^\s*(?:┌─|╭─) (.*):(\d+):(\d+)$")
NOTE = re.compile(r"^\s*= (.*)$")
LOGLINE = re.compile(r"^circomspect: (.*)$")
ANALYZING = re.compile(r"^analyzing (function|template) '(.*)'$")
SEV = {"error": "error", "warning": "warning", "note": "info"}


def materialise(files, root):
    """files: [{path, text | bytes(list) | symlink | missing, named, spell?}] -> list of named paths."""
    shutil.rmtree(root, ignore_errors=True)
    os.makedirs(root, exist_ok=True)
    named = []
    for f in files:
        p = os.path.join(root, f["path"])
        os.makedirs(os.path.dirname(p), exist_ok=True)
        if f.get("symlink"):
            os.symlink(f["symlink"], p)
        elif f.get("missing"):
            pass
        elif "bytes" in f:
            with open(p, "wb") as fh:
                fh.write(bytes(f["bytes"]))
        else:
            with open(p, "w", encoding="utf-8", newline="") as fh:
                fh.write(f.get("text", ""))
        if f.get("named"):
            named.append(os.path.join(root, f["spell"]) if f.get("spell") else p)
    return named


def parse_stdout(text, prefix=""):
    """stdout of the binary -> list of events:
       {e:'analyzing', kind, name} | {e:'diag', sev, id, msg, loc:{file,line,col}|None, locs:[..], notes:[..]}
       | {e:'msg', text} | {e:'summary', n}"""
    events = []
    cur = None
    in_header = False
    for raw in text.split("\n"):
        line = raw.rstrip("\r")
        m = HEADER.match(line)
        if m:
            cur = {"e": "diag", "sev": SEV.get(m.group(1), m.group(1)), "id": m.group(2), "msg": m.group(3).replace(prefix, ""),
                   "loc": None, "locs": [], "notes": []}
            events.append(cur)
            in_header = True
            continue
        m = LOGLINE.match(line)
        if m and not (cur and in_header and False):
            cur = None
            body = m.group(1)
            a = ANALYZING.match(body)
            if a:
                events.append({"e": "analyzing", "kind": a.group(1), "name": a.group(2)})
            elif body == "No issues found.":
                events.append({"e": "summary", "n": 0})
            elif re.match(r"^(\d+) issues? found\.$", body):
                events.append({"e": "summary", "n": int(body.split()[0])})
            else:
                events.append({"e": "msg", "text": body.replace(prefix, "")})
            continue
        if cur is None:
            if line.strip():
                events.append({"e": "stray", "text": line})
            continue
        if line == "":
            if not in_header:
                cur = None
            else:
                # a blank line before any location / note line: the message itself contains an empty line (e.g. a quoted token
                # that spans lines); the diagnostic goes on until its location, its notes, the next header or the next log line
                cur["msg"] += "\n"
            continue
        m = LOC.match(line)
        if m:
            in_header = False
            loc = {"file": m.group(1).replace(prefix, ""), "line": int(m.group(2)), "col": int(m.group(3))}
            cur["locs"].append(loc)
            if cur["loc"] is None:
                cur["loc"] = loc
            continue
        m = NOTE.match(line)
        if m:
            in_header = False
            cur["notes"].append(m.group(1))
            continue
        if in_header:
            # continuation of a multi-line message
            cur["msg"] += "\n" + line.replace(prefix, "")
            continue
    for e in events:
        if e["e"] == "diag":
            e["msg"] = e["msg"].rstrip("\n")
    return events


def linecol(text, off):
    """codespan's convention: line = 1 + number of newlines before the byte offset; column = 1 + number of
    characters since the line start. `text` is the original file content (str), `off` a byte offset."""
    b = text.encode("utf-8")
    off = max(0, min(off, len(b)))
    line_start = b.rfind(b"\n", 0, off) + 1
    line = b.count(b"\n", 0, off) + 1
    col = len(b[line_start:off].decode("utf-8", "ignore")) + 1
    return line, col


def run(argv, cwd=None, timeout=60):
    return vlib.run_real(argv, cwd=cwd, timeout=timeout)


def parse_sarif(path, prefix=""):
    try:
        doc = json.load(open(path))
    except Exception as ex:
        return {"error": str(ex)}
    run0 = doc["runs"][0]
    rules = [(r.get("id"), r.get("name")) for r in run0["tool"]["driver"].get("rules", [])]
    results = []
    for r in run0.get("results", []):
        def locs(key):
            out = []
            for l in r.get(key, []):
                ph = l["physicalLocation"]
                reg = ph["region"]
                out.append({"file": ph["artifactLocation"]["uri"].replace("file://", "").replace(prefix, ""),
                            "sl": reg.get("startLine"), "sc": reg.get("startColumn"), "el": reg.get("endLine"),
                            "ec": reg.get("endColumn"), "msg": l.get("message", {}).get("text")})
            return out
        results.append({"rule": r.get("ruleId"), "level": r.get("level"), "msg": r["message"]["text"].replace(prefix, ""),
                        "locs": locs("locations"), "related": locs("relatedLocations")})
    return {"rules": rules, "results": results}
