#!/usr/bin/env python3
"""Regenerates MANIFEST.json from the table below (single source of truth for the interface)."""
import json, os, subprocess
ROOT = os.path.dirname(os.path.dirname(os.path.abspath(__file__)))
props = [json.loads(l)["id"] for l in open(os.path.join(ROOT, "properties.jsonl"))]

CHECKS = {
 "C05": dict(
    level="model_checking", design="§5 C05",
    technique="TLA+ Ref lexer vs transcribed stripper (TLC, exhaustive strings) + TLC-generated cases replayed on real preprocess + TLC trace validation of random runs + comment splicing through the real pipeline",
    text="TLC enumerates every string up to length 6 (7 thorough; L1 to 8) over a 6-symbol alphabet with the verdict of the reference lexer of Comments.tla; every string is replayed on the real comment stripper and compared byte for byte; recorded outputs of random longer strings are validated by TLC (CommentsTrace.tla); every complete/unclosed comment shape of the scope is spliced into token gaps of real programs and the full in-process pipeline must report the same findings as for blanks / an error. Exhaustive within the bound, sampled beyond it.",
    note="Small-scope hypothesis (strings <= 7 symbols); the alphabet abstracts all letters to 'a' and all multi-byte characters to one 2-byte and one 4-byte representative; string literals are not special to the stripper (as in Circom)."),
 "C15": dict(
    level="model_checking", design="§5 C15",
    technique="TLA+ path-based Ref of dominance vs transcribed algorithm (TLC, all rooted digraphs) + TLC-generated graphs replayed on the real DominatorTree + TLC trace validation of random larger graphs",
    text="TLC enumerates every rooted digraph up to 4 nodes (5 thorough, 745k graphs) satisfying the precondition and prints Dom/idom/children/DF of the path-based reference definitions in Dominators.tla; each graph is replayed on the real DominatorTree::new through a harness node type and compared. Results recorded from the real code on random 6..12-node graphs are validated by TLC against the same definitions (DominatorsTrace.tla). L1: the transcribed algorithm equals Ref on the scope.",
    note="Small-scope hypothesis beyond 5 nodes (random sampling only); harness graphs have mirrored predecessor/successor sets by construction."),
 "C16": dict(
    level="model_checking", design="§5 C16",
    technique="TLA+ reference semantics of the 24 field operations (Field.tla) enumerated by TLC over all small prime fields and replayed on circom_algebra; TLC-checked boundary laws and Ref-established relations instantiated on the three real primes",
    text="Exhaustive for every odd prime <= 31 (thorough: up to 61, plus 127 and 257): every operand pair of every operation with Ref's value or error, replayed on the real functions with panics captured. For BN254/BLS12-381/Goldilocks TLC cannot evaluate the arithmetic: the check runs boundary laws that TLC verified on every small prime, over-large shift counts under a time/memory cap, and algebraic relations TLC proved for Ref, on boundary and random operands (exploration level for the real primes).",
    note="Field.tla is the authority for Circom's semantics; a defect that exists only for 254-bit operands away from the listed boundaries and not violating the relations would be missed."),
 "C11": dict(
    level="model_checking", design="§5 C11",
    technique="TLA+ constant table and threshold rules (Curves.tla) enumerated by TLC into cases replayed through the real pipeline and the real binary's --curve option",
    text="Exhaustive over the finite space the property quantifies: 3 curves x (26 documented names + ~110 near-miss names), every constant size 0..300 plus constant-expression and parameter forms for Num2Bits/Bits2Num and for the LessThan range check, with the verdict computed by Curves.tla (documented table, 254-bit threshold, k <= bits-2 lemma checked by TLC on small primes); each case is rendered as a template and run through the in-process pipeline with that curve. All 1568 case variants of the curve names and 23 wrong names go through the library parser and (sample / all in thorough) the real binary.",
    note="The documented table with Circomlib's spelling is the authority; template rendering and counting of findings by id and label text is trusted."),
 "C03": dict(
    level="model_checking", design="§5 C03",
    technique="TLA+ model of AnalysisRunner and of the writers (Runner.tla, Output.tla) checked by TLC over all configurations x orders x option sets; TLC-generated schedules replayed on the real runner (hook H4) against an independent production oracle; stdout/SARIF/exit of the real binary validated by TLC (RunnerTrace.tla)",
    text="TLC proves report conservation for the model of the runner over every configuration of 2 (thorough: 3) definitions, every look-up relation and every analysis order, and the output contract for every option set. Every schedule TLC emits is executed on the real AnalysisRunner in exactly that order and compared, per definition and as multisets, with what an oracle built only from public stage functions says is produced. The real binary is run on every configuration and on the full (level x allow-subset x sarif x verbose) lattice of a set of projects (among them projects in which a named file is also included by another named file, in both command-line orders; which files are user-specified is decided by the command line, not by the library's own flags, and twin projects of two (three) named files whose findings agree in id, message and byte span and differ in the file alone); its stdout, SARIF file and exit status are accepted or rejected by RunnerTrace.tla.",
    note="Production oracle = public into_cfg/into_ssa/get_analysis_passes with a harness-side context; stdout parser trusted; projects are small (<= 3 definitions in generated configurations plus the base corpus)."),
 "C17": dict(
    level="model_checking", design="§5 C17",
    technique="TLC: order independence of Runner.tla over all configurations and orders; TLC-enumerated project transformations (Transforms.tla) and all analysis orders (hook H4) executed on the real code; repeated fresh processes of the real binary; equality of per-definition finding multisets decided by TLC (TransformTrace.tla)",
    text="Runner.tla's OrderIndependent invariant is checked for every configuration and analysis order. Every permutation of the base definitions x every split over two named files in both orders x every subset of three unrelated extras (a name sharing a prefix, one failing to lift, one with its own findings) x one of the two named files including the other x a further named file with 90 unrelated templates that instantiate each other is rendered and run in-process twice; all analysis orders of the base project are replayed through H4; the real binary runs 5 (30) times in fresh processes on 12 (40) projects, and 24 times on small projects where a hash order could choose between two candidate reports (two reads before definition in one function; the same names defined in two named files of a project with a main component). TransformTrace.tla accepts a batch iff every base definition has the same multiset of normalised findings in all variants.",
    note="Hash-map iteration orders cannot be enumerated from outside the process: they are sampled (fresh processes / fresh maps), while the order of definition analysis is enumerated via H4. Findings are normalised to (id, severity, message, label texts)."),
 "C19": dict(
    level="model_checking", design="§5 C19",
    technique="TLA+ model of the include FileStack (Includes.tla) checked by TLC (safety + termination) over all include graphs, placements and named sequences; every TLC-generated project materialised with real paths/symlinks/-L options and run in-process and through the real binary, output validated by RunnerTrace.tla",
    text="Homonyms (IncludesNames.tla): every project of <= 4 files over two source directories and the library directory in which one name exists twice, with every set of <= 2 (3) include statements and every sequence of named files -- an include names a NAME, resolved in the directory of the including file and then in the library; all projects go through the in-process pipeline, a sample through the binary. And: exhaustive over every include relation on 2 files (thorough: 3, sampled replay) plus a missing target, every placement of the files in the source or library directory and every sequence of named files; spellings (plain, ./, sub/../, symlink, library directory or library file, named via ./ or a symlink) are rotated over the edges. For each project the FileLibrary must hold every reachable file exactly once with the right named/included status, one error located at the include statement per unresolvable edge, the analysed definitions must be exactly those of the named files, included definitions must inform inter-procedural findings, and the run must terminate. In a second rendering a leaf of the include graph that is reached at least twice (two include statements, or one and the command line) does not parse: it must still be read once and its error reported once.",
    note="Resolution rule of the model: same directory = local, target in the library directory = via -L, otherwise unresolvable; files identified by base name."),
 "C01": dict(
    level="exploration", design="§5 C01",
    technique="TLA+ token-level derivation machine (Grammar.tla) enumerated by TLC (exhaustive within a step bound + simulation) and rendered with a stress set; all short byte strings over a hostile alphabet; seeded mutations; every run of the real binary validated by TLC against the Totality clauses of PipelineTrace.tla",
    text="Bounded-exhaustive over the token model (every leftmost derivation of the Circom grammar within 8 (thorough: 10) expansion steps, two stress renderings each), deep random derivations from TLC's simulation mode, every byte string up to 3 (4) bytes over 12 hostile symbols, two systematic matrices (12 special callee names x 0..3 arguments x 3 instantiation forms x 3 curves; 7 callee shapes -- signals declared once, twice, once per branch, as arrays, not at all -- x 28 ways of calling it anonymously), directory arguments with symlink loops, a hand-written stress corpus and thousands of seeded mutations, rotated over all 36 option sets; each run of the real binary under a 60 s / 4 GiB cap is accepted by PipelineTrace.tla only if it ends by itself with status 0/1 and a matching summary as last line. Exploration level: this family gives no coverage feedback and no proof of panic freedom.",
    note="`Modest size` is read as <= 4 KiB; quadratic memory growth on long expressions (2.5 GB for a 1000-term sum) stays within the cap and is not judged."),
 "C02": dict(
    level="fault_enumeration", design="§5 C02",
    technique="TLA+ pipeline model with fault-injection scenarios (Pipeline.tla) checked by TLC; every scenario rendered and run through the real binary; traces validated by TLC (PipelineTrace.tla); token-level faults with the pipeline's own in-process detection as oracle",
    text="Every assignment of {none, missing, unreadable, bad pragma, syntax fault, unresolved include} to 2 (thorough: 3) named files x {none, malformed tuple, anonymous component in an expression, duplicate parameters, duplicate definition} to their definitions x 0..2 main components x how the first file is handed over (by path; by path while it lies in or below a -L directory or is itself a -L argument; through its directory) is generated by TLC (whose model is checked for NoSilentFailure / CleanMeansComplete / termination), rendered with rotating fault details (4 pragma versions, invalid UTF-8 or dangling symlink, `@` at every token position, several sugar shapes) and run through the real binary at --level warning and --level error. PipelineTrace.tla accepts a run iff every fault present has an error-level diagnostic naming the right file, the status is 1, and status 0 comes with every definition analysed. Delete/duplicate(/swap) mutations at every token position are judged against what the pipeline itself detects in-process.",
    note="Default level and --level error only (an id put in --allow is hidden by request, C03); attribution of a diagnostic to a fault class by id, message stem and file."),
 "C12": dict(
    level="model_checking", design="§5 C12",
    technique="TLC-enumerated statement trees (CfgBuild.tla) rendered, parsed and lifted by the real code; the exported graph judged by the well-formedness clauses of CfgTrace.tla (path-based dominance, mirror, branch placement, targets, fan-out, index order, loop depth)",
    text="Every function body derivable in <= 12 (thorough: 14) expansion steps -- all nestings and sequences of if / if-else / while / for with braced and bare arms, empty blocks, returns, loops first or last; bodies beginning with a loop, branch or block are rendered with their variables as parameters so that this statement starts the definition -- is rendered, parsed by the real parser and lifted; the exported pre-SSA and SSA graphs must satisfy each clause of the statement, evaluated in TLA+ on the exported graph itself (so any renumbering that still satisfies the statement passes). Loop depth is compared with the nesting the generator knows for each statement. The same TLC run evaluates an implementation-shaped model of the lifting algorithm (Lifting.tla) on every tree: its graph must satisfy the same clauses (L1) and the exported graph must equal it block by block (drift, recorded in the evidence, never an exit status).",
    note="Statements are identified in the export by the literal they carry; quick tier samples the largest size class (all smaller bodies kept)."),
 "C13": dict(
    level="model_checking", design="§5 C13",
    technique="Reference executor of the structured source (CfgTrace.tla SrcStep) run in lock-step with a walker of the exported graph; TLC explores every decision sequence up to the unrolling bound",
    text="For every generated body TLC explores all sequences of branch and loop decisions (each condition true at most twice, <= 40 (60) emissions): the statement the structured source executes next must be the statement the walk of the exported graph meets next, up to and including the first return, on the pre-SSA and on the SSA graph. `for` loops and compound assignments are primitive in the source tree and expanded only by the real parser, so the expansion itself is checked.",
    note="Bounded unrolling; bodies within the generator's bound; the walker takes the false edge from false_index, else the unique other successor."),
 "C14": dict(
    level="model_checking", design="§5 C14",
    technique="Static SSA clauses and a path walker over the exported SSA graph in CfgTrace.tla; TLC explores every path up to the unrolling bound keeping the current version of each variable",
    text="On the SSA graph exported from the real code: one definition per version, phis only at block heads, every non-phi read dominated by its definition (path-based dominance computed in TLA+), every version declared, signals/components unversioned; and along every explored path each read names the version most recently assigned on that path and each phi met from a predecessor holds the version that reaches it. Bodies assign and read two locals in all rotated patterns (assigned in one branch only, in loops, read in conditions, for-loop counters).",
    note="Arrays updated element-wise and shadowed names are exercised by C10/C06 generators rather than here; bounded unrolling."),
 "C10": dict(
    level="model_checking", design="§5 C10",
    technique="TLA+ reference resolver vs the renaming machine of unique_vars.rs and the SSA version key (Scopes.tla, TLC over all scope trees); TLC-generated trees with Ref's bindings rendered and lifted by the real code, IR names / SSA def-use / CS0001-CS0002 reports compared",
    text="TLC enumerates every scope tree within the bounds (declarations and read-write uses of {x, x_0} up to 12 (14) expansion steps and of {x, y, x_0, x_1} up to 9 (11), optional parameter, nested and sibling blocks) and prints Ref's binding for every occurrence and the expected shadowing pairs. Each tree is rendered as a function or a template (blocks as plain blocks, if, if/else, while, for bodies; uses in nine syntactic positions: read-write, array index on either side of an assignment, assert, log, ternary, call argument, index of a component port on either side), lifted by the real code and compared: equal (name, suffix) exactly for occurrences of one declaration; after SSA every read has a definition with its (name, suffix, version); the CS0001 reports are exactly the redeclarations of visible names with the shadowed declaration (or parameter list) as secondary label; repeated parameters give CS0002; sampled trees are run through the real binary to see the warnings displayed. L1: the transcribed renaming machine is faithful for every tree.",
    note="Declarations carry initialisers and all uses are bound; occurrences are identified by literals."),
 "C06": dict(
    level="model_checking", design="§5 C06",
    technique="TLA+ reference executor of a Circom fragment over F_P (Semantics.tla, values as tables over the signal valuations, operators from Field.tla); the real analysis run over the same small field (hook H3), its constant claims mapped onto the abstract program and checked by TLC in every execution",
    text="TLC enumerates every statement skeleton (declarations with/without initialiser, assignments, if, if/else, while, nested, asserts; functions and templates) within a step bound and every depth-1 expression over all 23 operators and the ternary (plus sampled depth-2 ones) in four data-flow contexts (direct, join, partial definition, loop); the harness instantiates them, the real code analyses them over F_5 (thorough: F_5 and F_7), and every constant the tool attaches to an expression node or assignment, and every `always true/false` finding, becomes a claim that TLC checks before the statement executes in every execution: all parameter valuations, all paths, all signal valuations (as tables).",
    note="Small fields only (the three real primes are covered operator by operator by C16); function calls, arrays and component ports are outside the executor's fragment and claims about them are not judged; operators/literals of skeleton instances are chosen by seeded rotation."),
 "C07": dict(
    level="model_checking", design="§5 C07",
    technique="Semantics.tla in table mode: a degree claim requires the node to be a polynomial expression and its value table to have total degree <= the claim (coordinate finite differences over F_P^K), checked by TLC in every execution; claims exported from the real analysis (hook H3) incl. CS0013 findings",
    text="Every depth-1 expression over {signal a, signal b, parameter, local, literals} x all operators (and sampled depth-2 ones) is placed in the contexts direct `<--`, `<==`, through a local, accumulated in a loop, merged at a join, as an operand whose range was merged at a join, written into a local array (in a branch, in sequence, in a loop before a read), with an output port of a sub-component as an indeterminate of its own, plus calls of a known function sq(x) = x * x (nested, on arguments of unknown degree) and the statement skeletons (with local arrays); the tool's degree upper bounds (constant / linear / quadratic) on every node and every `unnecessary signal assignment` finding are checked against the value tables over all signal valuations: the node must be built as a polynomial expression and all (d+1)-fold coordinate differences of its table must vanish.",
    note="The rank-1 shape A*B+C the compiler also requires is deliberately not demanded (the statement derives the compiler clause from the degree clause); K = 2 indeterminates (3 in the component-port context), P = 5 (7); `not a polynomial expression` is judged wherever the expression has a value at all, the degree of the table where it is defined everywhere."),
 "C08": dict(
    level="model_checking", design="§5 C08",
    technique="TLA+ alphabet of assigning / constraining statement forms with Ref's expected findings (SignalAssign.tla) enumerated by TLC; every template rendered, desugared and analysed by the real code; bijection, anchoring and secondary locations compared",
    text="Every template of <= 4 (thorough: 6) items out of 7 assigning forms (scalar, reversed `-->`, array element in a loop, component input, port of an element of a component array in a loop, tuple with `_`, anonymous call with two named `<--` inputs) and 9 constraint forms (`===`, `<==`, `==>` mentioning the assigned signals in different ways, duplicates), x 3 nestings x quadratic / non-quadratic right-hand sides x template / custom template, in rotating layouts (reversed order, two statements per line). Checked: exactly one CS0005/CS0013 per (statement, assigned signal), primary label = the statement (inside it for sugar forms), CS0005 secondaries = exactly the constraint statements mentioning the signal with the same access, nothing for custom templates or other definitions.",
    note="Which of the two finding kinds is given is C07's business. Anonymous components inside loop bodies made the template unliftable at the pinned commit (fixed: 3e6ee4d)."),
 "C09": dict(
    level="model_checking", design="§5 C09",
    technique="Self-composition in TLA+ (SemanticsEffects.tla): for every site flagged by CS0006/CS0007/CS0008 TLC runs the definition twice in lock step over F_3 from all inputs, replacing the value written at the site by any value, and compares the effects the statement lists",
    text="Every nesting chain of SemChains.tla (an accumulator updated under every nesting of if / if-else arms / while of depth <= 2 (3), used afterwards in a return, `<--` or `<==`, or flowing into an unconstrained intermediate signal that alone is read by an assertion or a branch condition) and every statement skeleton of SemGen.tla within the bound, instantiated with locals, parameters, input / output / intermediate signals, constraints, assertions, loops and branches, is analysed by the real code; each flagged assignment or parameter becomes a site. TLC explores, per site, all valuations of parameters and input signals x all replacement values at every execution of the site, and refutes the claim if a value assigned to an input/output signal, a side of a constraint mentioning one, an assertion outcome, the return value or a branch decision differs between the two runs.",
    note="F_3; local arrays with run-dependent indices and dimensions are generated (write-cursor and dimension families of SemChains.tla), component ports are not; only flagged sites are judged."),
 "C20": dict(
    level="model_checking", design="§5 C20",
    technique="Hook H2 pass budgets: for every program every cut point of value and degree propagation (0..fixpoint each, and the diagonal) is run on the real code; the union of all claims made at any cut is validated by the same TLA+ executor as C06/C07, and the 13 passes must complete on every truncated CFG",
    text="For each generated program the harness reads the number of passes to the fixpoint and re-runs SSA conversion with every budget pair on the grid {0..Bv} x unlimited, unlimited x {0..Bd} and the diagonal; every run must complete (all passes run on the truncated result) and every constant / degree claim and every CS0009 / CS0013 finding made at any cut point is checked by Semantics.tla in every execution. Claims are judged one by one, so the cut points of one program are validated together with the budgets of each claim remembered for the report. One definition of 2500 (4000) statements whose propagation is still progressing after 10 s of wall clock exercises the real time box: the run must complete normally. Propagate.tla (extra check X02) describes the pass schedule itself and is validated against the real code pass by pass.",
    note="For the cut points the wall-clock time box is replaced by a pass counter (same place in the loop); the real time box is exercised by one long definition only; smaller scopes than C06/C07 because of the budget grid."),
 "C04": dict(
    level="model_checking", design="§5 C04",
    technique="TLA+ character model of files (Locations.tla: byte offsets, boundaries, line/column) used by TLC to validate every label recorded from the real code (LocationsTrace.tla); terminal line:col and SARIF regions compared with positions recomputed from the original bytes; label texts compared across meaning-preserving re-renderings",
    text="Programs from the corpora and the generators of C08 / C10 / the micro-programs, plus syntax faults, lexical faults (characters of 1 to 4 bytes the lexer rejects, in place of a token, glued to one, at the end of the file), unresolved includes, unclosed comments and sugar errors, are each rendered four ways (identity, multi-byte comment lines, CRLF, block comments of C05's shapes with tabs) and run in-process and through the real binary with SARIF. TLC accepts a record only if every label of every report names a file that was read, has start <= end inside the file on character boundaries, and every observed line/column (SARIF start and end of every location) equals the one recomputed from the character model. The line:col printed on the terminal must be the start of the first primary label; the text under each label must be the same modulo white space and comments in all renderings; identifiers quoted by a primary label's message must occur under the label.",
    note="`Points at the construct the message is about` is checked through quoted identifiers and label shape here, and by exact statement / declaration spans in C08 and C10; SARIF results are paired with reports by (rule, message) in position order."),
 "C18": dict(
    level="model_checking", design="§5 C18",
    technique="TLA+ enumeration of sugar uses with Ref's verdict class (Desugar.tla); for each use the sugared definition and its hand-written expansion are run through the real parser / desugarer / pipeline; AST walk for leftover sugar; findings compared",
    text="Every use -- 10 expression forms (anonymous components with positional / named / reversed / mixed-operator inputs, with parameters, without inputs, parallel; tuple expressions) x 21 positions (assignment sides, declarations with initialisers, conditions, array indices on both sides, assert / log / return arguments, call arguments, template parameters, nested inputs, ternary arms, array literals, dimensions, loop conditions, statement position) and 17 tuple statement forms (among them the value of an anonymous call discarded with `_`) (with `_`, nested, anonymous outputs, length mismatch, var tuples, reversed operator) x template / function x inside / outside a loop -- must end in one of the outcomes Ref allows: no tuple / anonymous component / multi-substitution left in any definition after parse_files; functions rejected with an error; templates either rejected with an error and dropped or producing exactly the findings of the hand-written expansion; never a panic.",
    note="Findings compared as multisets of (id, message and primary label messages with generated component names normalised, label counts). Two known findings (anonymous components in loop bodies)."),
}

NOT_YET = "check not built yet (work in progress; see DESIGN.md §8 for the order)"
NOT_APPLICABLE = {}

def main():
    hooks = subprocess.run(["git", "-C", "/repo", "log", "--format=%H %s"], capture_output=True, text=True).stdout.splitlines()
    hook_commits = [l.split()[0] for l in hooks if " verif hook " in " " + l]
    checks = []
    for pid in props:
        if pid not in CHECKS:
            continue
        c = CHECKS[pid]
        checks.append({
            "property_id": pid,
            "quick_cmd": f"bin/check {pid} --tier quick",
            "thorough_cmd": f"bin/check {pid} --tier thorough",
            "evidence_file": f"evidence/{pid}.json",
            "replay_cmd_template": f"bin/check {pid} --replay {{path}}",
            "engine": "tlc+vh",
            "level_claimed": {"category": c["level"], "text": c["text"], "design_ref": c["design"]},
            "level_note": c["note"],
            "technique": c["technique"],
        })
    m = {
        "version": 1,
        "setup_cmd": "bin/setup",
        "hooks": {
            "guard": "cargo feature `verif` (crates circomspect-parser, circomspect-program-structure, circomspect-program-analysis)",
            "enable": "the harness crate /verif/harness depends on the repository crates by path with features = [\"verif\"]; `cargo build --offline` in /verif/harness rebuilds them and the real CLI (bin target with path /repo/cli/src/main.rs) from /repo's working tree",
            "baseline_off_cmd": "cd /repo && cargo test --workspace --no-fail-fast --offline",
            "source_commits": hook_commits,
            "add_only": True,
        },
        "engines": [
            {"name": "tlc+vh", "path": "bin/check", "serves_properties": sorted(CHECKS),
             "kind_free_text": "python driver (bin/check, bin/checks/*.py) running TLC on spec/*.tla to generate cases / validate traces, and the Rust conformance harness `vh` (harness/) that drives the real circomspect library and binary built from /repo"},
        ],
        "checks": checks,
        "notes": "Exit 0 = held (KNOWN-FINDING lines possible), 1 = VIOLATION, 2 = tool error/time-out. Known findings: known_findings.json. Seeded changes: seeded/. Design: DESIGN.md.",
        "not_applicable": [{"property_id": p, "reason": NOT_APPLICABLE.get(p, NOT_YET)} for p in props if p not in CHECKS],
    }
    json.dump(m, open(os.path.join(ROOT, "MANIFEST.json"), "w"), indent=1)
    print("MANIFEST.json:", len(checks), "checks,", len(m["not_applicable"]), "not claimed")

if __name__ == "__main__":
    main()
