"""Shared machinery of the /verif checks: harness build, TLC runs, CASE decoding,
evidence files, known findings, violation reporting.

Exit status convention of every check: 0 = property held on everything explored
(KNOWN-FINDING lines allowed), 1 = at least one VIOLATION line, 2 = tool error /
time-out (never a verdict about the code).
"""
import json, os, re, subprocess, sys, time, shutil, hashlib

ROOT = os.path.dirname(os.path.dirname(os.path.abspath(__file__)))
BUILD = os.path.join(ROOT, ".build")
SPEC = os.path.join(ROOT, "spec")
HARNESS = os.path.join(ROOT, "harness")
TARGET = os.path.join(BUILD, "target", "debug")
VH = os.path.join(TARGET, "vh")
REAL = os.path.join(TARGET, "circomspect-real")
EVIDENCE = os.path.join(ROOT, "evidence")
REPLAY = os.path.join(EVIDENCE, "replay")
TLA_CP = "/opt/veriftools/tla/tla2tools.jar:/opt/veriftools/tla/CommunityModules-deps.jar"


class ToolError(Exception):
    pass


def log(*a):
    print(*a, file=sys.stderr, flush=True)


def seed():
    try:
        return int(os.environ.get("VERIF_SEED", "1"))
    except ValueError:
        return 1


def workdir(name):
    d = os.path.join(BUILD, "work", name)
    shutil.rmtree(d, ignore_errors=True)
    os.makedirs(d, exist_ok=True)
    return d


_built = False


def build_harness():
    """cargo build of the harness crate; path dependencies on /repo make this
    rebuild whatever changed in the repository's working tree."""
    global _built
    if _built:
        return
    os.makedirs(BUILD, exist_ok=True)
    t0 = time.time()
    env = dict(os.environ, CARGO_NET_OFFLINE="true")
    env.pop("RUSTFLAGS", None)
    # serialise concurrent builds (several checks may be started in parallel)
    import fcntl
    with open(os.path.join(BUILD, "build.lock"), "w") as lk:
        fcntl.flock(lk, fcntl.LOCK_EX)
        p = subprocess.run(["cargo", "build", "--offline", "--quiet"], cwd=HARNESS, env=env,
                           stdout=subprocess.PIPE, stderr=subprocess.STDOUT, text=True)
    if p.returncode != 0:
        log(p.stdout[-6000:])
        raise ToolError("harness build failed (does /repo still compile?)")
    log(f"[build] harness + real binary up to date ({time.time()-t0:.1f}s)")
    _built = True


def vh(args, *, input_path=None, timeout=3600, check=True, capture=True, env=None):
    """Run the Rust harness. Returns CompletedProcess (stdout captured as text)."""
    build_harness()
    e = dict(os.environ)
    e["RUST_BACKTRACE"] = "0"
    if env:
        e.update(env)
    stdin = open(input_path) if input_path else None
    try:
        p = subprocess.run([VH] + list(args), stdin=stdin, env=e, timeout=timeout,
                           stdout=subprocess.PIPE if capture else None,
                           stderr=subprocess.PIPE, text=True)
    except subprocess.TimeoutExpired:
        raise ToolError(f"harness timed out: vh {' '.join(args)}")
    finally:
        if stdin:
            stdin.close()
    if check and p.returncode != 0:
        log(p.stderr[-4000:])
        raise ToolError(f"harness failed ({p.returncode}): vh {' '.join(args)}")
    return p


class Tlc:
    """Result of one TLC run."""

    def __init__(self):
        self.generated = 0
        self.distinct = 0
        self.cases = 0
        self.cases_path = None
        self.violated = []      # invariant / property names reported violated
        self.errors = []        # other TLC errors
        self.log_path = None
        self.wall = 0.0
        self.depth = 0
        self.prints = []        # other PrintT tuples (decoded lists)
        self.postcondition_failed = False


def decode_tla_tuple_line(line, tag):
    """A line `<<"TAG", "....">>` printed by TLC -> the decoded inner string."""
    pre = '<<"%s", ' % tag
    if not line.startswith(pre):
        return None
    body = line[len(pre):].rstrip()
    if not body.endswith(">>"):
        return None
    body = body[:-2]
    try:
        return json.loads(body)
    except Exception:
        return None


def run_tlc(module, cfg, name, *, workers=8, timeout=900, env=None, xmx="6g", simulate=None,
            depth=None, tags=("CASE",), deque=False, extra=None, seed_=None, keep_log=True,
            cases_suffix=""):
    """Run TLC on spec/<module>.tla with spec/<cfg>. Lines `<<"CASE", "<json>">>` are decoded
    and written (one JSON document per line) to <work>/cases<suffix>.ndjson."""
    wd = os.path.join(BUILD, "work", name)
    os.makedirs(wd, exist_ok=True)
    meta = os.path.join(wd, "tlcmeta" + cases_suffix)
    shutil.rmtree(meta, ignore_errors=True)
    res = Tlc()
    res.cases_path = os.path.join(wd, "cases%s.ndjson" % cases_suffix)
    res.log_path = os.path.join(wd, "tlc%s.log" % cases_suffix)
    jopts = "-Xss1g"
    if deque:
        jopts += " -Dtlc2.tool.queue.IStateQueue=StateDeque"
    e = dict(os.environ)
    e["JAVA_TOOL_OPTIONS"] = jopts
    if env:
        e.update({k: str(v) for k, v in env.items()})
    cmd = ["timeout", str(timeout), "java", "-XX:+UseParallelGC", "-Xmx" + xmx, "-cp", TLA_CP, "tlc2.TLC",
           "-workers", str(workers), "-metadir", meta, "-cleanup", "-noGenerateSpecTE",
           "-config", cfg, ]
    if simulate:
        cmd += ["-simulate", "num=%d" % simulate]
        if depth:
            cmd += ["-depth", str(depth)]
        cmd += ["-seed", str(seed_ if seed_ is not None else seed())]
    if extra:
        cmd += extra
    cmd += [module + ".tla"]
    t0 = time.time()
    p = subprocess.Popen(cmd, cwd=SPEC, env=e, stdout=subprocess.PIPE, stderr=subprocess.STDOUT, text=True,
                         errors="replace")
    tagset = tuple(tags)
    with open(res.cases_path, "w") as cf, open(res.log_path, "w") as lf:
        for line in p.stdout:
            if line.startswith('<<"'):
                done = False
                for tag in tagset:
                    s = decode_tla_tuple_line(line, tag)
                    if s is not None:
                        if tag == "CASE":
                            cf.write(s)
                            cf.write("\n")
                            res.cases += 1
                        else:
                            res.prints.append((tag, s))
                        done = True
                        break
                if done:
                    continue
            lf.write(line)
            m = re.search(r"(\d+) states generated, (\d+) distinct states found", line)
            if m:
                res.generated, res.distinct = int(m.group(1)), int(m.group(2))
            m = re.search(r"The depth of the complete state graph search is (\d+)", line)
            if m:
                res.depth = int(m.group(1))
            m = re.search(r"Invariant (\S+) is violated", line)
            if m:
                res.violated.append(m.group(1))
            m = re.search(r"Temporal properties were violated|Action property (\S+) is violated", line)
            if m:
                res.violated.append(m.group(1) or "temporal")
            if "Error:" in line and "Invariant" not in line:
                res.errors.append(line.strip())
            if "POSTCONDITION" in line and "violated" in line.lower():
                res.postcondition_failed = True
    rc = p.wait()
    res.wall = time.time() - t0
    res.rc = rc
    shutil.rmtree(meta, ignore_errors=True)
    if rc == 124:
        raise ToolError(f"TLC timed out after {timeout}s on {module}/{cfg}")
    if rc not in (0, 12, 13) and not res.violated:
        tail = open(res.log_path).read()[-3000:]
        log(tail)
        raise ToolError(f"TLC failed (rc={rc}) on {module}/{cfg}; log {res.log_path}")
    log(f"[tlc] {module}/{cfg}: {res.generated} generated, {res.distinct} distinct, {res.cases} cases, "
        f"{res.wall:.1f}s, violated={res.violated}")
    return res


def sany_all():
    bad = []
    for f in sorted(os.listdir(SPEC)):
        if f.endswith(".tla"):
            p = subprocess.run(["java", "-cp", TLA_CP, "tla2sany.SANY", f], cwd=SPEC, stdout=subprocess.PIPE,
                               stderr=subprocess.STDOUT, text=True)
            if p.returncode != 0 or "Semantic errors" in p.stdout or "*** Errors" in p.stdout or "Fatal" in p.stdout:
                bad.append(f)
                log(p.stdout[-2000:])
    return bad


# ---------------------------------------------------------------- known findings

def load_known(prop):
    path = os.path.join(ROOT, "known_findings.json")
    if not os.path.exists(path):
        return []
    doc = json.load(open(path))
    return [f for f in doc.get("findings", []) if f.get("property") == prop]


class Verdict:
    """Collects violations of one check run, matches them against known findings,
    writes replay files and the evidence file, prints the protocol lines."""

    def __init__(self, prop, tier, level):
        self.prop, self.tier, self.level = prop, tier, level
        self.t0 = time.time()
        self.known = load_known(prop)
        self.new = {}        # signature -> first replay doc
        self.known_hit = {}  # id -> count
        self.counts = {}     # signature -> count
        self.notes = []
        self.drift = []

    def violation(self, signature, doc):
        """signature: short stable string naming the failed Ref clause (+ code site);
        doc: a JSON-serialisable replay document (the concrete failing case)."""
        for k in self.known:
            if self._matches(k, signature, doc):
                self.known_hit[k["id"]] = self.known_hit.get(k["id"], 0) + 1
                return False
        self.counts[signature] = self.counts.get(signature, 0) + 1
        if signature not in self.new:
            self.new[signature] = doc
        return True

    @staticmethod
    def _matches(k, signature, doc):
        if k.get("signature") != signature:
            return False
        m = k.get("match")
        if not m:
            return True
        # every key of `match` must equal (or, for "regex:" values, match) the replay doc's field
        for key, want in m.items():
            have = doc.get(key) if isinstance(doc, dict) else None
            if isinstance(want, str) and want.startswith("regex:"):
                if have is None or not re.search(want[6:], have if isinstance(have, str) else json.dumps(have)):
                    return False
            elif have != want:
                return False
        return True

    def note(self, s):
        self.notes.append(s)
        log("[note]", s)

    def finish(self, coverage, assumptions=None):
        os.makedirs(REPLAY, exist_ok=True)
        # remove stale replay files of this property
        for f in os.listdir(REPLAY):
            if f.startswith(self.prop + "-"):
                os.remove(os.path.join(REPLAY, f))
        for k in self.known:
            if k["id"] in self.known_hit:
                print(f"KNOWN-FINDING: property={self.prop} {k['what']} [{self.known_hit[k['id']]} case(s) this run]")
        n = 0
        for sig, doc in self.new.items():
            n += 1
            path = os.path.join(REPLAY, f"{self.prop}-{n}.json")
            with open(path, "w") as f:
                json.dump({"property": self.prop, "signature": sig, "instances_this_run": self.counts[sig],
                           "case": doc}, f, indent=1, sort_keys=True)
            print(f"VIOLATION property={self.prop} replay={path}")
            log(f"   signature: {sig}  ({self.counts[sig]} instance(s))")
        cov = dict(coverage)
        if self.notes:
            cov["notes"] = self.notes[:50]
        if self.drift:
            cov["drift"] = self.drift[:50]
        if self.known_hit:
            cov["known_findings_hit"] = self.known_hit
        ev = {"property_id": self.prop, "tier": self.tier, "seed": seed(), "level": self.level,
              "coverage": cov, "assumptions": assumptions or [], "wall_s": round(time.time() - self.t0, 2),
              "violations": len(self.new)}
        os.makedirs(EVIDENCE, exist_ok=True)
        with open(os.path.join(EVIDENCE, self.prop + ".json"), "w") as f:
            json.dump(ev, f, indent=1)
        sys.stdout.flush()
        return 1 if self.new else 0


def read_ndjson(path):
    with open(path) as f:
        for line in f:
            line = line.strip()
            if line:
                yield json.loads(line)


def write_ndjson(path, docs):
    with open(path, "w") as f:
        for d in docs:
            f.write(json.dumps(d, separators=(",", ":")))
            f.write("\n")


def sample(items, k=5):
    items = list(items)
    if len(items) <= k:
        return items
    step = max(1, len(items) // k)
    return [items[i] for i in range(0, len(items), step)][:k]


def run_real(argv, *, cwd=None, timeout=60, mem_kb=4 * 1024 * 1024, env=None):
    """Run the real circomspect binary; returns dict(code, out, err, wall, timeout)."""
    build_harness()
    e = dict(os.environ)
    e.pop("RUST_LOG", None)
    e["RUST_BACKTRACE"] = "0"
    e["NO_COLOR"] = "1"
    if env:
        e.update(env)
    t0 = time.time()

    def lim():
        import resource
        resource.setrlimit(resource.RLIMIT_AS, (mem_kb * 1024, mem_kb * 1024))
    try:
        p = subprocess.run([REAL] + list(argv), cwd=cwd, env=e, timeout=timeout, stdout=subprocess.PIPE,
                           stderr=subprocess.PIPE, preexec_fn=lim)
        return {"code": p.returncode, "out": p.stdout.decode("utf-8", "replace"),
                "err": p.stderr.decode("utf-8", "replace"), "wall": time.time() - t0, "timeout": False}
    except subprocess.TimeoutExpired as ex:
        return {"code": None, "out": (ex.stdout or b"").decode("utf-8", "replace"),
                "err": (ex.stderr or b"").decode("utf-8", "replace"), "wall": time.time() - t0, "timeout": True}
