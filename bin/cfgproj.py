"""Structured statement trees -> Circom text -> real CFG / SSA export -> records for CfgTrace.tla
(C12, C13, C14)."""
import os, json, random
import vlib
from vlib import run_tlc, vh, read_ndjson, write_ndjson

WR = [("x", ""), ("y", ""), ("x", "x"), ("y", "x"), ("x", "y"), ("y", "y")]
CR = ["p", "x", "y", "p"]


def parse(toks):
    """prefix token list of CfgBuild.tla -> nested tree (root = list of statements)."""
    pos = [0]

    def stmt():
        t = toks[pos[0]]
        pos[0] += 1
        if t in ("s", "n", "r", "d"):
            return {"k": t}
        if t == "m":
            # one statement `var a = <id>, b[<id+1>];`: an assignment followed by a declaration with a dimension (both observable)
            return {"k": "blk", "ss": [{"k": "s", "mrole": 1}, {"k": "s", "mrole": 2}], "braced": True, "multi": True}
        if t == "if":
            return {"k": "if", "t": arm()}
        if t == "ife":
            return {"k": "ife", "t": arm(), "e": arm()}
        if t in ("wh", "for"):
            return {"k": t, "t": arm()}
        if t == "{":
            return {"k": "blk", "ss": lst(), "braced": True}
        raise ValueError(t)

    def arm():
        t = toks[pos[0]]
        pos[0] += 1
        if t == "{":
            return {"k": "blk", "ss": lst(), "braced": True}
        if t == "bare":
            inner = stmt()
            # a declaration is not written as the unbraced body of a branch or loop
            return {"k": "blk", "ss": [inner], "braced": bool(inner.get("multi")) or inner["k"] == "d"}
        raise ValueError(t)

    def lst():
        out = []
        while toks[pos[0]] != "}":
            out.append(stmt())
        pos[0] += 1
        return out
    body = lst()
    return body


def ends_with_open_if(st):
    """would a following `else` attach to an if inside this (bare) statement?"""
    if st["k"] == "if":
        return True
    if st["k"] == "ife":
        return ends_with_open_if_arm(st["e"])
    if st["k"] in ("wh", "for"):
        return ends_with_open_if_arm(st["t"])
    return False


def ends_with_open_if_arm(arm):
    return (not arm["braced"]) and ends_with_open_if(arm["ss"][0])


class Builder:
    def __init__(self, k):
        self.k = k          # rotation index for read/write patterns
        self.next_id = 10
        self.nodes = []     # flat nodes (1-based index = position + 1)
        self.count = 0

    def new_id(self):
        i = self.next_id
        self.next_id += 3
        return i

    def flat(self, st, depth):
        """returns node index (1-based)"""
        idx = len(self.nodes)
        self.nodes.append(None)
        k = st["k"]
        node = {"k": k, "id": 0, "kids": [], "t": 0, "e": 0, "depth": depth}
        if k == "blk" and st.get("multi"):
            base = self.new_id()
            st["ss"][0].update(id=base, w="m%da" % base, r="")
            st["ss"][1].update(id=base + 1, w="", r="")
            st["id"] = base
        if k == "d":
            self.ndecl = getattr(self, "ndecl", 0) + 1
            st["dn"] = self.ndecl
        elif k in ("s", "n", "r"):
            node["id"] = st.get("id") or self.new_id()
            st["id"] = node["id"]
            if k == "s" and "w" not in st:
                st["w"], st["r"] = WR[(self.k + self.count) % len(WR)]
                self.count += 1
        elif k in ("if", "ife", "wh"):
            node["id"] = st["id"] = self.new_id()
            st["cr"] = CR[(self.k + self.count) % len(CR)]
            self.count += 1
            node["t"] = self.flat(st["t"], depth + (1 if k == "wh" else 0))
            if k == "ife":
                node["e"] = self.flat(st["e"], depth)
        elif k == "for":
            node["id"] = st["id"] = self.new_id()
            node["t"] = self.flat(st["t"], depth + 1)
        elif k == "blk":
            node["kids"] = [self.flat(s, depth) for s in st["ss"]]
        self.nodes[idx] = node
        return idx + 1


TEMPLATE_MODE = [False]


def render_stmt(st, ind):
    pad = "  " * ind
    k = st["k"]
    if k == "s":
        rhs = "%d" % st["id"] if not st["r"] else "%s + %d" % (st["r"], st["id"])
        return "%s%s = %s;\n" % (pad, st["w"], rhs)
    if k == "n":
        return "%sassert(p0 != %d);\n" % (pad, st["id"])        # a statement that assigns no local
    if k == "d":
        return "%s%s d%d;\n" % (pad, "signal" if TEMPLATE_MODE[0] else "var", st["dn"])
    if k == "blk" and st.get("multi"):
        return "%svar m%da = %d, m%db[%d];\n" % (pad, st["id"], st["id"], st["id"], st["id"] + 1)
    if k == "r":
        return "%sreturn x + %d;\n" % (pad, st["id"])
    if k == "blk":
        return "%s{\n%s%s}\n" % (pad, "".join(render_stmt(s, ind + 1) for s in st["ss"]), pad)
    cond = "%s == %d" % ({"p": "p0", "x": "x", "y": "y"}.get(st.get("cr"), "p0"), st["id"])
    if k == "if":
        return "%sif (%s)%s" % (pad, cond, render_arm(st["t"], ind))
    if k == "ife":
        t = st["t"]
        if ends_with_open_if_arm(t):
            t = dict(t, braced=True)       # avoid the dangling else: keep the tree's meaning
            st["t"] = t
        first = render_arm(t, ind)
        if t["braced"]:
            first = first.rstrip("\n") + " else" + render_arm(st["e"], ind)
            return "%sif (%s)%s" % (pad, cond, first)
        return "%sif (%s)%s%selse%s" % (pad, cond, first, pad, render_arm(st["e"], ind))
    if k == "wh":
        return "%swhile (%s)%s" % (pad, cond, render_arm(st["t"], ind))
    if k == "for":
        i = st["id"]
        return "%sfor (var i%d = %d; i%d < %d; i%d++)%s" % (pad, i, i, i, i + 1, i, render_arm(st["t"], ind))
    raise ValueError(k)


def render_arm(arm, ind):
    if arm["braced"]:
        return " {\n%s%s}\n" % ("".join(render_stmt(s, ind + 1) for s in arm["ss"]), "  " * ind)
    return "\n" + render_stmt(arm["ss"][0], ind + 1)


def build(toks, k):
    """-> (source text, flat tree). Two prologues: x and y declared first (the body then never starts the definition), or x and y
    as parameters, so that the first statement of the body - possibly a loop or a branch - is the first statement of the definition.
    A body that declares signals (`d`) and has no `return` is rendered as a template."""
    body = parse(toks)
    template = ("d" in toks) and ("r" not in toks)
    as_params = bool(body) and (body[0]["k"] in ("wh", "if", "ife", "blk") or k % 4 == 0)
    pro = [] if as_params else [{"k": "s", "id": 4, "w": "x", "r": ""}, {"k": "s", "id": 7, "w": "y", "r": ""}]
    root = {"k": "blk", "braced": True, "ss": pro + body + [{"k": "n" if template else "r", "id": 9}]}
    b = Builder(k)
    b.flat(root, 0)
    # render after numbering; a rewritten dangling-else arm changes `braced` only (same tree)
    TEMPLATE_MODE[0] = template
    kw = "template" if template else "function"
    if as_params:
        text = "%s f(p0, x, y) {\n" % kw
    else:
        text = "%s f(p0) {\n  var x = 4;\n  var y = 7;\n" % kw
    text += "".join(render_stmt(s, 1) for s in body)
    text += "  assert(p0 != 9);\n}\n" if template else "  return x + y + 9;\n}\n"
    TEMPLATE_MODE[0] = False
    return text, b.nodes


def key(n):
    return "%s|%s" % (n["n"], n["s"])


def num_of(e):
    if e is None:
        return 0
    if e["k"] == "num":
        try:
            v = int(e["num"])
            return v if v < 2 ** 30 else 0
        except ValueError:
            return 0
    if e["k"] == "infix":
        return num_of(e["r"]) or num_of(e["l"])
    if e["k"] == "update":
        return num_of(e["r"])
    return 0


def reads_of(e, out):
    if e is None or not isinstance(e, dict):
        return
    k = e.get("k")
    if k == "var":
        out.append({"v": key(e["name"]), "ver": e["name"]["v"]})
    elif k == "access":
        out.append({"v": key(e["name"]), "ver": e["name"]["v"]})
        for a in e["acc"]:
            if "i" in a:
                reads_of(a["i"], out)
    elif k == "update":
        # an element-wise update reads the previous version of the array
        out.append({"v": key(e["name"]), "ver": e["name"]["v"]})
        for a in e["acc"]:
            if "i" in a:
                reads_of(a["i"], out)
        reads_of(e["r"], out)
    elif k == "phi":
        pass
    else:
        for f in ("l", "r", "c", "t", "f"):
            if isinstance(e.get(f), dict):
                reads_of(e[f], out)
        for a in e.get("args", []) or []:
            reads_of(a, out)


def convert(cfg):
    """irdump CFG -> CfgTrace form (1-based block indices)."""
    blocks = []
    types = {key(d["name"]): d["ty"] for d in cfg["decls"]}
    params = [key(p) for p in cfg["params"]]
    declared = set()
    for d in cfg["decls"]:
        declared.add((key(d["name"]), d["name"]["v"]))
    for b in cfg["blocks"]:
        stmts = []
        for s in b["stmts"]:
            st = {"k": "other", "tag": 0, "t": 0, "f": 0, "w": "", "wv": -1, "reads": [], "phi": False, "phiargs": []}
            if s["k"] == "decl":
                st["k"] = "decl"
                for n in s["names"]:
                    declared.add((key(n), n["v"]))
                for d in s["dims"]:
                    reads_of(d, st["reads"])
                if s["dims"]:
                    st["tag"] = num_of(s["dims"][0])
            elif s["k"] == "if":
                st.update(k="if", tag=num_of(s["cond"]), t=s["t"] + 1, f=s["f"] + 1 if s["f"] >= 0 else 0)
                reads_of(s["cond"], st["reads"])
            elif s["k"] == "ret":
                st.update(k="ret", tag=num_of(s["value"]))
                reads_of(s["value"], st["reads"])
            elif s["k"] == "sub":
                st.update(k="s", w=key(s["var"]), wv=s["var"]["v"])
                if s["rhe"]["k"] == "phi":
                    st.update(phi=True, phiargs=[a["v"] for a in s["rhe"]["phiargs"]])
                else:
                    reads_of(s["rhe"], st["reads"])
                    tag = num_of(s["rhe"])
                    if s["var"]["n"].startswith("i") and s["var"]["n"][1:].isdigit():
                        base = int(s["var"]["n"][1:])
                        tag = base if tag == base else base + 2      # init or step of a for loop
                    st["tag"] = tag
            else:
                for f in ("lhe", "rhe", "arg"):
                    if isinstance(s.get(f), dict):
                        reads_of(s[f], st["reads"])
                if s["k"] == "assert":
                    st["tag"] = num_of(s["arg"])
            stmts.append(st)
        blocks.append({"preds": [p + 1 for p in b["preds"]], "succs": [x + 1 for x in b["succs"]], "depth": b["depth"],
                       "dom": [d + 1 for d in b["dom"]], "stmts": stmts})
    local = sorted(k for k, t in types.items() if t == "var") + [p for p in params if p not in types]
    unver = sorted(k for k, t in types.items() if t != "var")
    return {"blocks": blocks, "params": params, "vars": sorted(set(local)), "unversioned": unver,
            "declared": [[k, v] for (k, v) in sorted(declared)]}


def make_records(cases, wd, tierk=0):
    """cases: token lists -> (records, sources, export docs)"""
    srcs, trees = [], []
    for i, c in enumerate(cases):
        text, nodes = build(c["toks"], i + tierk)
        srcs.append(text)
        trees.append(nodes)
    pin, pout = os.path.join(wd, "ir.in"), os.path.join(wd, "ir.out")
    write_ndjson(pin, [{"id": i, "src": s} for i, s in enumerate(srcs)])
    vh(["irdump", pin, pout], timeout=3000)
    docs = list(read_ndjson(pout))
    recs = []
    for tree, doc in zip(trees, docs):
        if "panic" in doc or not doc.get("parse") or "pre" not in doc or "ssa" not in doc:
            recs.append({"kind": "skip", "tree": tree, "g": {"blocks": []}, "ssa": {"blocks": [], "vars": [], "params": []}})
        else:
            recs.append({"kind": "ok", "tree": tree, "g": convert(doc["pre"]), "ssa": convert(doc["ssa"])})
    return recs, srcs, docs


# hand-written definitions in which one identifier is used for things of different kinds in different scopes (the renaming pass
# distinguishes them by a suffix; signals and components must stay unversioned whatever locals share their identifier)
KIND_CLASHES = [
    "template f(p0) {\n  signal input a;\n  signal output o;\n  var x = 4;\n  if (p0 == 1) {\n    var bits = 3;\n    x = x + bits;\n  }\n  component bits = Sub();\n  bits.in <== a + x;\n  o <== bits.out;\n}\n",
    "template f(p0) {\n  signal input a;\n  signal output o;\n  var acc = 0;\n  for (var i = 0; i < 2; i++) {\n    var t = i;\n    acc = acc + t;\n  }\n  signal t;\n  t <== a * acc;\n  o <== t;\n}\n",
    "template f(p0, w) {\n  signal input a;\n  signal output o;\n  var v = w;\n  {\n    signal w;\n    w <== a * v;\n    o <== w;\n  }\n}\n",
    "template f(p0) {\n  signal input a;\n  signal output o;\n  var s = 1;\n  if (p0 == 2) {\n    s = s + 1;\n  }\n  {\n    component s[2];\n    for (var j = 0; j < 2; j++) {\n      s[j] = Sub();\n      s[j].in <== a;\n    }\n    o <== s[0].out + s[1].out;\n  }\n}\n",
    "template f(p0) {\n  signal input a;\n  signal output o;\n  {\n    signal q;\n    q <== a;\n  }\n  var q = 2;\n  q = q + p0;\n  while (q == 3) {\n    q = q + 1;\n  }\n  o <== a * q;\n}\n",
    "function f(p0, q) {\n  var r = q;\n  {\n    var q = r + 1;\n    r = q;\n  }\n  for (var q = 0; q < 2; q++) {\n    r = r + q;\n  }\n  return r + q;\n}\n",
]


C12_WHY = ("entry block", "a block is unreachable", "successor and predecessor", "branch statement not last", "branch target", "too many successors",
           "a block dominates", "recorded dominators", "recorded loop depth")
C13_WHY = ("the graph walk", "the SSA graph walk")
C14_WHY = ("a version has two", "phi statement not at", "a read is not dominated", "a version is not covered", "a signal or component carries",
           "phi lacks", "a read does not name")


def prop_of(why):
    for p, pre in (("C12", C12_WHY), ("C13", C13_WHY), ("C14", C14_WHY)):
        if why.startswith(pre):
            return p
    return "?"


def validate(recs, name, maxiter=2, maxrun=40, chunk=1500, workers=12):
    wd = os.path.join(vlib.BUILD, "work", name)
    rejects, states, gen = {}, 0, 0
    cfg = os.path.join(wd, "cfgtrace.cfg")
    open(cfg, "w").write("SPECIFICATION Spec\nCONSTANTS\n  MaxIter = %d\n  MaxRun = %d\nINVARIANT Static\nINVARIANT Model\nINVARIANT Drift\nINVARIANT Dynamic\nINVARIANT Consumed\n"
                         "CHECK_DEADLOCK FALSE\n" % (maxiter, maxrun))
    for off in range(0, len(recs), chunk):
        part = recs[off:off + chunk]
        tpath = os.path.join(wd, "cfg.trace.ndjson")
        write_ndjson(tpath, part)
        tr = run_tlc("CfgTrace", cfg, name, workers=workers, env={"TRACE": tpath}, tags=("REJECT", "CONSUMED"), cases_suffix="-ctrace",
                     timeout=3000, xmx="12g")
        states += tr.distinct
        gen += tr.generated
        if not any(t == "CONSUMED" for t, _ in tr.prints):
            raise vlib.ToolError("CfgTrace did not consume the whole trace")
        for tag, s in tr.prints:
            if tag == "REJECT":
                d = json.loads(s)
                rejects.setdefault((d["idx"] - 1 + off, d["why"]), True)
    return sorted(rejects), states, gen


def run_check(prop, tier):
    """Shared driver of C12 / C13 / C14: the same generated bodies and the same trace specification; each property reports
    the clauses that belong to it."""
    from vlib import Verdict, sample
    v = Verdict(prop, tier, "model_checking")
    name = prop.lower()
    wd = os.path.join(vlib.BUILD, "work", name)
    os.makedirs(wd, exist_ok=True)
    vlib.build_harness()
    rnd = random.Random(vlib.seed())
    steps = 12 if tier == "quick" else 14
    c = os.path.join(wd, "gen.cfg")
    open(c, "w").write("SPECIFICATION Spec\nCONSTANTS\n  MaxSteps = %d\n  MaxLen = 34\nINVARIANT Emit\nCHECK_DEADLOCK FALSE\n" % steps)
    gen = run_tlc("CfgBuild", c, name, workers=8 if tier == "quick" else 14, timeout=3000)
    cases = list(read_ndjson(gen.cases_path))
    total = len(cases)
    cap = 9000 if tier == "quick" else 80000
    if len(cases) > cap:
        # keep every small body (if they fit into half of the budget, else a sample of them), sample the larger ones
        small = [x for x in cases if len(x["toks"]) <= 7]
        big = [x for x in cases if len(x["toks"]) > 7]
        if len(small) > cap // 2:
            small = rnd.sample(small, cap // 2)
        cases = small + rnd.sample(big, min(len(big), cap - len(small)))
    recs, srcs, docs = make_records(cases, wd, tierk=vlib.seed())
    # static-only records: hand-written definitions (no generated tree)
    xin, xout = os.path.join(wd, "kc.in"), os.path.join(wd, "kc.out")
    write_ndjson(xin, [{"id": i, "src": t} for i, t in enumerate(KIND_CLASHES)])
    vh(["irdump", xin, xout], timeout=600)
    for t, doc in zip(KIND_CLASHES, read_ndjson(xout)):
        if "panic" in doc:
            v.violation("%s:panic %s" % (name, doc["panic"]["site"]), {"source": t, "panic": doc["panic"]})
            continue
        if not doc.get("parse") or "pre" not in doc:
            raise vlib.ToolError("a hand-written definition does not parse / lift: %s" % t)
        if "ssa" not in doc:
            # these definitions convert on the unchanged tree; a spurious `used before it is defined` is what a versioned
            # signal or component looks like from outside
            if prop == "C14":
                v.violation("c14:SSA conversion fails for a definition in which a signal or component shares its identifier with a local",
                            {"source": t, "error": (doc.get("ssa_error") or {}).get("msg"), "why": "ssa-conversion-fails"})
            continue
        recs.append({"kind": "static", "tree": [{"k": "blk", "id": 0, "kids": [], "t": 0, "e": 0, "depth": 0}], "g": convert(doc["pre"]), "ssa": convert(doc["ssa"])})
        srcs.append(t)
        docs.append(doc)
        cases.append({"toks": ["hand-written"]})
    for i, d in enumerate(docs):
        if "panic" in d:
            v.violation("%s:panic %s" % (name, d["panic"]["site"]), {"source": srcs[i], "panic": d["panic"]})
        elif not d.get("parse") or "pre" not in d or "ssa" not in d:
            raise vlib.ToolError("a generated body does not parse / lift: %s" % srcs[i])
    rejects, states, generated = validate(recs, name, maxiter=2, maxrun=40 if tier == "quick" else 60)
    others = 0
    l1, drift = [], []
    for idx, why in rejects:
        if why.startswith("MODEL:"):
            l1.append((idx, why))          # L1: the Impl model (Lifting.tla) itself violates Ref: a defect of the specification
        elif why.startswith("DRIFT:"):
            drift.append((idx, why))       # the code builds another graph than Lifting.tla: recorded, not a property violation
        elif prop_of(why) == prop:
            v.violation("%s:%s" % (name, why), {"source": srcs[idx], "tokens": cases[idx]["toks"], "why": why})
        else:
            others += 1
    if l1:
        v.note("L1 FAILURE: Lifting.tla violates the reference clauses on %d tree(s), e.g. %s: %s" % (len(l1), json.dumps(cases[l1[0][0]]["toks"]), l1[0][1]))
    if drift:
        v.note("DRIFT: on %d of %d bodies the exported pre-SSA graph differs from the graph Lifting.tla builds (first: %s)" %
               (len(drift), len(recs), json.dumps(srcs[drift[0][0]])))
    if others:
        v.note("%d rejection(s) belong to the clauses of the sibling properties (reported by their checks)" % others)
    nontriv = sum(1 for x in cases if any(t in ("if", "ife", "wh", "for") for t in x["toks"]))
    clauses = {"C12": list(C12_WHY), "C13": list(C13_WHY), "C14": list(C14_WHY)}[prop]
    cov = {"states": states + gen.distinct, "transitions": generated + gen.generated, "traces_validated_against_impl": len(recs),
           "exhaustive": total == len(cases), "evaluations": len(recs), "distinct_nontrivial": nontriv,
           "rule": "every function body CfgBuild.tla derives in <= %d expansion steps (%d bodies, %d kept%s): simple statements, returns, "
                   "if / if-else / while / for with braced and bare arms, nested blocks; reads/writes of two locals and the conditions' "
                   "operands rotated over all patterns; each rendered, parsed and lifted by the real code, the exported pre-SSA and SSA "
                   "graphs judged by CfgTrace.tla with every decision sequence explored (<= 2 iterations per condition); non-trivial = "
                   "bodies with at least one branch or loop" % (steps, total, len(cases), "" if total == len(cases) else ", bodies of more than 7 tokens sampled"),
           "samples": [{"source": srcs[i]} for i in (0, len(srcs) // 2, len(srcs) - 1)],
           "clauses_of_this_property": clauses,
           "impl_model": {"module": "Lifting.tla (graph), CfgTrace!IDF (phi placement)", "trees_on_which_the_model_satisfies_the_reference_clauses": len(recs) - len(l1),
                          "model_violations": len(l1), "bodies_where_the_real_graph_and_phi_placement_equal_the_model": len(recs) - len(drift),
                          "drift": len(drift)}}
    return v.finish(cov, assumptions=["statements are identified in the exported graphs by the literal they carry",
                                      "loop unrolling bound: each condition is decided true at most twice per run"])
