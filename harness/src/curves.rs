//! C11: curve constants and curve-name parsing of the library.
use crate::util::*;
use program_structure::constants::{Curve, UsefulConstants};
use serde_json::{json, Value};
use std::str::FromStr;

/// case: {"name": "..."} -> {"ok": bool, "curve": Display name, "prime": decimal, "bits": n}
pub fn run(inp: &str, out: &str) {
    par_map(inp, out, threads(), |case| {
        let name = case["name"].as_str().unwrap_or("");
        match guarded(|| Curve::from_str(name)) {
            Ok(Ok(c)) => {
                let k = UsefulConstants::new(&c);
                json!({"ok": true, "curve": c.to_string(), "prime": k.prime().to_string(), "bits": k.prime_size()})
            }
            Ok(Err(_)) => json!({"ok": false}),
            Err(p) => json!({"panic": panic_json(&p)}),
        }
    });
}
