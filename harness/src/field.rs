//! C16: replay field operations on circom_algebra::modular_arithmetic.
use crate::util::*;
use circom_algebra::modular_arithmetic as ma;
use num_bigint_dig::BigInt;
use serde_json::{json, Value};
use std::sync::mpsc;
use std::time::Duration;

fn big(v: &Value) -> BigInt {
    match v {
        Value::Number(n) => BigInt::from(n.as_i64().unwrap()),
        Value::String(s) => BigInt::parse_bytes(s.as_bytes(), 10).expect("bad bigint"),
        _ => panic!("bad operand"),
    }
}

fn res(r: Result<BigInt, ma::ArithmeticError>) -> Option<BigInt> {
    r.ok()
}

pub fn apply(op: &str, a: &BigInt, b: &BigInt, p: &BigInt) -> Option<Option<BigInt>> {
    let one = |x: bool| BigInt::from(if x { 1 } else { 0 });
    Some(match op {
        "add" => Some(ma::add(a, b, p)),
        "sub" => Some(ma::sub(a, b, p)),
        "mul" => Some(ma::mul(a, b, p)),
        "div" => res(ma::div(a, b, p)),
        "idiv" => res(ma::idiv(a, b, p)),
        "mod_op" => res(ma::mod_op(a, b, p)),
        "pow" => Some(ma::pow(a, b, p)),
        "shift_l" => res(ma::shift_l(a, b, p)),
        "shift_r" => res(ma::shift_r(a, b, p)),
        "bit_or" => Some(ma::bit_or(a, b, p)),
        "bit_and" => Some(ma::bit_and(a, b, p)),
        "bit_xor" => Some(ma::bit_xor(a, b, p)),
        "bool_or" => Some(ma::bool_or(a, b, p)),
        "bool_and" => Some(ma::bool_and(a, b, p)),
        "eq" => Some(ma::eq(a, b, p)),
        "not_eq" => Some(ma::not_eq(a, b, p)),
        "lesser" => Some(ma::lesser(a, b, p)),
        "greater" => Some(ma::greater(a, b, p)),
        "lesser_eq" => Some(ma::lesser_eq(a, b, p)),
        "greater_eq" => Some(ma::greater_eq(a, b, p)),
        "prefix_sub" => Some(ma::prefix_sub(a, p)),
        "complement_256" => Some(ma::complement_256(a, p)),
        "not" => Some(ma::not(a, p)),
        "as_bool" => Some(one(ma::as_bool(a, p))),
        _ => return None,
    })
}

fn one_case(case: &Value) -> Value {
    let op = case["op"].as_str().unwrap().to_string();
    let (a, b, p) = (big(&case["a"]), big(&case["b"]), big(&case["p"]));
    match guarded(|| apply(&op, &a, &b, &p)) {
        Ok(Some(Some(v))) => json!({"r": v.to_string()}),
        Ok(Some(None)) => json!({"r": "error"}),
        Ok(None) => json!({"r": "unknown-op"}),
        Err(pn) => json!({"panic": panic_json(&pn)}),
    }
}

/// Small fields: every case is cheap; no watchdog needed except for shifts, which are bounded
/// by the small modulus.
pub fn run(inp: &str, out: &str) {
    par_map(inp, out, threads(), one_case);
}

/// Real primes: each case runs in its own thread with a 5 s watchdog ("bounded time").
pub fn run_real(inp: &str, out: &str) {
    par_map(inp, out, 4, |case| {
        let c = case.clone();
        let (tx, rx) = mpsc::channel();
        std::thread::spawn(move || {
            let _ = tx.send(one_case(&c));
        });
        match rx.recv_timeout(Duration::from_secs(5)) {
            Ok(v) => v,
            Err(_) => json!({"timeout": true}),
        }
    });
}
