//! C16: replay field operations on circom_algebra::modular_arithmetic.
use crate::util::*;
use circom_algebra::modular_arithmetic as ma;
use num_bigint_dig::BigInt;
use serde_json::{json, Value};
use std::sync::mpsc;
use std::time::Duration;

fn big(v: &Value) -> BigInt {
    match v {
        Value::Number(n) => BigInt::from(n.as_i64().unwrap()),
        Value::String(s) => BigInt::parse_bytes(s.as_bytes(), 10).expect("bad bigint"),
        _ => panic!("bad operand"),
    }
}

fn res(r: Result<BigInt, ma::ArithmeticError>) -> Option<BigInt> {
    r.ok()
}

pub fn apply(op: &str, a: &BigInt, b: &BigInt, p: &BigInt) -> Option<Option<BigInt>> {
    let one = |x: bool| BigInt::from(if x { 1 } else { 0 });
    Some(match op {
        "add" => Some(ma::add(a, b, p)),
        "sub" => Some(ma::sub(a, b, p)),
        "mul" => Some(ma::mul(a, b, p)),
        "div" => res(ma::div(a, b, p)),
        "idiv" => res(ma::idiv(a, b, p)),
        "mod_op" => res(ma::mod_op(a, b, p)),
        "pow" => Some(ma::pow(a, b, p)),
        "shift_l" => res(ma::shift_l(a, b, p)),
        "shift_r" => res(ma::shift_r(a, b, p)),
        "bit_or" => Some(ma::bit_or(a, b, p)),
        "bit_and" => Some(ma::bit_and(a, b, p)),
        "bit_xor" => Some(ma::bit_xor(a, b, p)),
        "bool_or" => Some(ma::bool_or(a, b, p)),
        "bool_and" => Some(ma::bool_and(a, b, p)),
        "eq" => Some(ma::eq(a, b, p)),
        "not_eq" => Some(ma::not_eq(a, b, p)),
        "lesser" => Some(ma::lesser(a, b, p)),
        "greater" => Some(ma::greater(a, b, p)),
        "lesser_eq" => Some(ma::lesser_eq(a, b, p)),
        "greater_eq" => Some(ma::greater_eq(a, b, p)),
        "prefix_sub" => Some(ma::prefix_sub(a, p)),
        "complement_256" => Some(ma::complement_256(a, p)),
        "not" => Some(ma::not(a, p)),
        "as_bool" => Some(one(ma::as_bool(a, p))),
        _ => return None,
    })
}

pub const BIN_OPS: [&str; 20] = ["add", "sub", "mul", "div", "idiv", "mod_op", "pow", "shift_l", "shift_r", "bit_or", "bit_and",
    "bit_xor", "bool_or", "bool_and", "eq", "not_eq", "lesser", "greater", "lesser_eq", "greater_eq"];
pub const UN_OPS: [&str; 4] = ["prefix_sub", "complement_256", "not", "as_bool"];

fn op_json(op: &str, a: &BigInt, b: &BigInt, p: &BigInt) -> Value {
    match guarded(|| apply(op, a, b, p)) {
        Ok(Some(Some(v))) => json!(v.to_string()),
        Ok(Some(None)) => json!("error"),
        Ok(None) => json!("unknown-op"),
        Err(pn) => json!({"panic": panic_json(&pn)}),
    }
}

/// {p,a,b} without "op": the whole table of the 20 binary and 4 unary operations.
fn table_case(case: &Value) -> Value {
    let (a, b, p) = (big(&case["a"]), big(&case["b"]), big(&case["p"]));
    let bin: Vec<Value> = BIN_OPS.iter().map(|op| op_json(op, &a, &b, &p)).collect();
    let un: Vec<Value> = UN_OPS.iter().map(|op| op_json(op, &a, &b, &p)).collect();
    json!({"bin": bin, "un": un})
}

/// Relations that Field.tla's RefLaws invariant establishes for Ref (TLC, every small field),
/// evaluated with the real functions only, for operands of any size.
fn relations_case(case: &Value) -> Value {
    let (a, b, p) = (big(&case["a"]), big(&case["b"]), big(&case["p"]));
    let zero = BigInt::from(0);
    let one = BigInt::from(1);
    let r = guarded(|| {
        let mut bad: Vec<&str> = Vec::new();
        let in_range = |v: &BigInt| v >= &zero && v < &p;
        for op in BIN_OPS.iter().chain(UN_OPS.iter()) {
            if *op == "shift_l" || *op == "shift_r" || *op == "pow" {
                continue; // operand-size dependent cost: covered by the boundary laws
            }
            if let Some(Some(v)) = apply(op, &a, &b, &p) {
                if !in_range(&v) {
                    bad.push("result-not-canonical");
                }
            }
        }
        if b != zero {
            match ma::div(&a, &b, &p) {
                Ok(q) => {
                    if ma::mul(&q, &b, &p) != a {
                        bad.push("mul(div(a,b),b)=a");
                    }
                }
                Err(_) => bad.push("div-by-nonzero-is-error"),
            }
            match (ma::idiv(&a, &b, &p), ma::mod_op(&a, &b, &p)) {
                (Ok(q), Ok(r)) => {
                    if ma::add(&ma::mul(&q, &b, &p), &r, &p) != a {
                        bad.push("idiv*b+mod=a");
                    }
                    if !(r >= zero && r < b) {
                        bad.push("0<=mod<b");
                    }
                }
                _ => bad.push("idiv/mod-by-nonzero-is-error"),
            }
        }
        if ma::add(&ma::sub(&a, &b, &p), &b, &p) != a {
            bad.push("add(sub(a,b),b)=a");
        }
        if ma::lesser(&a, &b, &p) + ma::greater_eq(&a, &b, &p) != one {
            bad.push("lesser+greater_eq=1");
        }
        if ma::greater(&a, &b, &p) + ma::lesser_eq(&a, &b, &p) != one {
            bad.push("greater+lesser_eq=1");
        }
        if ma::lesser(&a, &b, &p) != ma::greater(&b, &a, &p) {
            bad.push("lesser(a,b)=greater(b,a)");
        }
        if ma::complement_256(&ma::complement_256(&a, &p), &p) != a {
            bad.push("complement-involution");
        }
        if ma::add(&a, &ma::prefix_sub(&a, &p), &p) != zero {
            bad.push("a+(-a)=0");
        }
        if ma::bit_xor(&ma::bit_xor(&a, &b, &p), &zero, &p) != ma::sub(&ma::bit_or(&a, &b, &p), &ma::bit_and(&a, &b, &p), &p)
            && (&a | &b) < p
        {
            bad.push("xor=or-and");
        }
        if ma::eq(&a, &b, &p) + ma::not_eq(&a, &b, &p) != one {
            bad.push("eq+not_eq=1");
        }
        bad
    });
    match r {
        Ok(bad) => json!({"bad": bad}),
        Err(pn) => json!({"panic": panic_json(&pn)}),
    }
}

fn one_case(case: &Value) -> Value {
    if case.get("rel").is_some() {
        return relations_case(case);
    }
    if case.get("op").is_none() {
        return table_case(case);
    }
    let op = case["op"].as_str().unwrap().to_string();
    let (a, b, p) = (big(&case["a"]), big(&case["b"]), big(&case["p"]));
    match guarded(|| apply(&op, &a, &b, &p)) {
        Ok(Some(Some(v))) => json!({"r": v.to_string()}),
        Ok(Some(None)) => json!({"r": "error"}),
        Ok(None) => json!({"r": "unknown-op"}),
        Err(pn) => json!({"panic": panic_json(&pn)}),
    }
}

/// Small fields: every case is cheap; no watchdog needed except for shifts, which are bounded
/// by the small modulus.
pub fn run(inp: &str, out: &str) {
    par_map(inp, out, threads(), one_case);
}

/// Real primes: each case runs in its own thread with a 5 s watchdog ("bounded time").
pub fn run_real(inp: &str, out: &str) {
    par_map(inp, out, 4, |case| {
        let c = case.clone();
        let (tx, rx) = mpsc::channel();
        std::thread::spawn(move || {
            let _ = tx.send(one_case(&c));
        });
        match rx.recv_timeout(Duration::from_secs(5)) {
            Ok(v) => v,
            Err(_) => json!({"timeout": true}),
        }
    });
}
