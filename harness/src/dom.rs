//! C15: replay digraphs on the real DominatorTree.
use crate::util::*;
use program_structure::ssa::dominator_tree::DominatorTree;
use program_structure::ssa::traits::DirectedGraphNode;
use serde_json::{json, Value};
use std::collections::HashSet;

struct Node {
    i: usize,
    preds: HashSet<usize>,
    succs: HashSet<usize>,
}

impl DirectedGraphNode for Node {
    fn index(&self) -> usize {
        self.i
    }
    fn predecessors(&self) -> &HashSet<usize> {
        &self.preds
    }
    fn successors(&self) -> &HashSet<usize> {
        &self.succs
    }
}

fn sorted(s: HashSet<usize>) -> Vec<usize> {
    let mut v: Vec<usize> = s.into_iter().collect();
    v.sort();
    v
}

/// case: {"n": N, "e": [[a,b],..]} with nodes 0..N-1, entry 0.
pub fn run(inp: &str, out: &str) {
    par_map(inp, out, threads(), |case| {
        let n = case["n"].as_u64().unwrap() as usize;
        let mut nodes: Vec<Node> = (0..n).map(|i| Node { i, preds: HashSet::new(), succs: HashSet::new() }).collect();
        for e in case["e"].as_array().unwrap() {
            let (a, b) = (e[0].as_u64().unwrap() as usize, e[1].as_u64().unwrap() as usize);
            nodes[a].succs.insert(b);
            nodes[b].preds.insert(a);
        }
        match guarded(|| {
            let t = DominatorTree::new(&nodes);
            let dom: Vec<Value> = (0..n).map(|i| json!(sorted(t.get_dominators(i)))).collect();
            let idom: Vec<Value> = (0..n).map(|i| json!(t.get_immediate_dominator(i).map(|x| x as i64).unwrap_or(-1))).collect();
            let kids: Vec<Value> = (0..n).map(|i| json!(sorted(t.get_dominator_successors(i)))).collect();
            let df: Vec<Value> = (0..n).map(|i| json!(sorted(t.get_dominance_frontier(i)))).collect();
            json!({"dom": dom, "idom": idom, "kids": kids, "df": df})
        }) {
            Ok(v) => v,
            Err(p) => json!({"panic": panic_json(&p)}),
        }
    });
}
