//! C18: after parse_files, walk the public AST of every template and function and count the
//! syntactic-sugar nodes that remain (tuples, anonymous components, multi-substitutions).
use crate::pipeline::{materialise, report_json};
use crate::util::*;
use parser::ParseResult;
use program_analysis::config::COMPILER_VERSION;
use program_structure::ast::{Access, Expression, LogArgument, Statement};
use serde_json::{json, Value};

#[derive(Default)]
struct Count {
    tuples: usize,
    anons: usize,
    multis: usize,
}

fn expr(e: &Expression, c: &mut Count) {
    use Expression::*;
    match e {
        InfixOp { lhe, rhe, .. } => {
            expr(lhe, c);
            expr(rhe, c);
        }
        PrefixOp { rhe, .. } | ParallelOp { rhe, .. } => expr(rhe, c),
        InlineSwitchOp { cond, if_true, if_false, .. } => {
            expr(cond, c);
            expr(if_true, c);
            expr(if_false, c);
        }
        Variable { access, .. } => {
            for a in access {
                if let Access::ArrayAccess(i) = a {
                    expr(i, c);
                }
            }
        }
        Number(..) => {}
        Call { args, .. } => args.iter().for_each(|a| expr(a, c)),
        AnonymousComponent { params, signals, .. } => {
            c.anons += 1;
            params.iter().for_each(|a| expr(a, c));
            signals.iter().for_each(|a| expr(a, c));
        }
        ArrayInLine { values, .. } => values.iter().for_each(|a| expr(a, c)),
        Tuple { values, .. } => {
            c.tuples += 1;
            values.iter().for_each(|a| expr(a, c));
        }
    }
}

fn stmt(s: &Statement, c: &mut Count) {
    use Statement::*;
    match s {
        IfThenElse { cond, if_case, else_case, .. } => {
            expr(cond, c);
            stmt(if_case, c);
            if let Some(e) = else_case {
                stmt(e, c);
            }
        }
        While { cond, stmt: body, .. } => {
            expr(cond, c);
            stmt(body, c);
        }
        Return { value, .. } => expr(value, c),
        InitializationBlock { initializations, .. } => initializations.iter().for_each(|x| stmt(x, c)),
        Declaration { dimensions, .. } => dimensions.iter().for_each(|x| expr(x, c)),
        Substitution { access, rhe, .. } => {
            for a in access {
                if let Access::ArrayAccess(i) = a {
                    expr(i, c);
                }
            }
            expr(rhe, c);
        }
        MultiSubstitution { lhe, rhe, .. } => {
            c.multis += 1;
            expr(lhe, c);
            expr(rhe, c);
        }
        ConstraintEquality { lhe, rhe, .. } => {
            expr(lhe, c);
            expr(rhe, c);
        }
        LogCall { args, .. } => {
            for a in args {
                if let LogArgument::LogExp(e) = a {
                    expr(e, c);
                }
            }
        }
        Block { stmts, .. } => stmts.iter().for_each(|x| stmt(x, c)),
        Assert { arg, .. } => expr(arg, c),
    }
}

pub fn check(case: &Value) -> Value {
    let proj = materialise(case);
    let prefix = format!("{}/", proj.dir.display());
    let r = guarded(|| {
        let (templates, functions, lib, reports) = match parser::parse_files(&proj.named, &proj.libs, &COMPILER_VERSION) {
            ParseResult::Program(p, w) => (p.templates, p.functions, p.file_library, w),
            ParseResult::Library(l, w) => (l.templates, l.functions, l.file_library, w),
        };
        let mut defs = Vec::new();
        for (name, t) in templates.iter() {
            let mut c = Count::default();
            stmt(t.get_body(), &mut c);
            defs.push(json!({"kind": "template", "name": name, "tuples": c.tuples, "anons": c.anons, "multis": c.multis}));
        }
        for (name, f) in functions.iter() {
            let mut c = Count::default();
            stmt(f.get_body(), &mut c);
            defs.push(json!({"kind": "function", "name": name, "tuples": c.tuples, "anons": c.anons, "multis": c.multis}));
        }
        defs.sort_by_key(|d| d["name"].as_str().unwrap_or("").to_string());
        json!({"defs": defs, "parse": reports.iter().map(|r| report_json(r, &lib, &prefix)).collect::<Vec<_>>()})
    });
    let mut doc = match r {
        Ok(d) => d,
        Err(p) => json!({"panic": panic_json(&p)}),
    };
    if let Some(id) = case.get("id") {
        doc["id"] = id.clone();
    }
    doc
}

pub fn run(inp: &str, out: &str) {
    std::fs::create_dir_all(crate::pipeline::scratch_root()).ok();
    par_map(inp, out, threads(), check);
}
