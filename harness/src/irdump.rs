//! Export of the real CFG / SSA / metadata as JSON (C06, C07, C09, C10, C12, C13, C14, C20).
//! Only public accessors of the repository's crates are used.
use crate::pipeline::report_json;
use crate::util::*;
use program_structure::cfg::{Cfg, IntoCfg};
use program_structure::constants::Curve;
use program_structure::file_definition::FileLibrary;
use program_structure::ir::degree_meta::{Degree, DegreeMeta};
use program_structure::ir::value_meta::{ValueMeta, ValueReduction};
use program_structure::ir::variable_meta::VariableMeta;
use program_structure::ir::*;
use program_structure::report::ReportCollection;
use serde_json::{json, Value};
use std::str::FromStr;

fn name_json(n: &VariableName) -> Value {
    json!({"n": n.name(), "s": n.suffix().clone().unwrap_or_else(|| "-".to_string()), "v": n.version().map(|v| v as i64).unwrap_or(-1)})
}

fn val_json(v: Option<&ValueReduction>) -> Value {
    match v {
        Some(ValueReduction::Boolean { value }) => json!({"b": value}),
        Some(ValueReduction::FieldElement { value }) => json!({"n": value.to_string()}),
        None => Value::Null,
    }
}

fn deg_num(d: Degree) -> i64 {
    match d {
        Degree::Constant => 0,
        Degree::Linear => 1,
        Degree::Quadratic => 2,
        Degree::NonQuadratic => 3,
    }
}

fn infix_name(op: &ExpressionInfixOpcode) -> &'static str {
    use ExpressionInfixOpcode::*;
    match op {
        Mul => "mul", Div => "div", Add => "add", Sub => "sub", Pow => "pow", IntDiv => "idiv", Mod => "mod_op",
        ShiftL => "shift_l", ShiftR => "shift_r", LesserEq => "lesser_eq", GreaterEq => "greater_eq", Lesser => "lesser",
        Greater => "greater", Eq => "eq", NotEq => "not_eq", BoolOr => "bool_or", BoolAnd => "bool_and", BitOr => "bit_or",
        BitAnd => "bit_and", BitXor => "bit_xor",
    }
}

fn prefix_name(op: &ExpressionPrefixOpcode) -> &'static str {
    match op {
        ExpressionPrefixOpcode::Sub => "prefix_sub",
        ExpressionPrefixOpcode::BoolNot => "not",
        ExpressionPrefixOpcode::Complement => "complement_256",
    }
}

fn access_json(access: &[AccessType]) -> Vec<Value> {
    access
        .iter()
        .map(|a| match a {
            AccessType::ArrayAccess(e) => json!({"i": expr_json(e)}),
            AccessType::ComponentAccess(f) => json!({"f": f}),
        })
        .collect()
}

pub fn expr_json(e: &Expression) -> Value {
    use Expression::*;
    let meta = e.meta();
    let mut v = match e {
        InfixOp { lhe, infix_op, rhe, .. } => json!({"k": "infix", "op": infix_name(infix_op), "l": expr_json(lhe), "r": expr_json(rhe)}),
        PrefixOp { prefix_op, rhe, .. } => json!({"k": "prefix", "op": prefix_name(prefix_op), "r": expr_json(rhe)}),
        SwitchOp { cond, if_true, if_false, .. } => json!({"k": "switch", "c": expr_json(cond), "t": expr_json(if_true), "f": expr_json(if_false)}),
        Variable { name, .. } => json!({"k": "var", "name": name_json(name)}),
        Number(_, n) => json!({"k": "num", "num": n.to_string()}),
        Call { name, args, .. } => json!({"k": "call", "callee": name, "args": args.iter().map(expr_json).collect::<Vec<_>>()}),
        InlineArray { values, .. } => json!({"k": "array", "args": values.iter().map(expr_json).collect::<Vec<_>>()}),
        Access { var, access, .. } => json!({"k": "access", "name": name_json(var), "acc": access_json(access)}),
        Update { var, access, rhe, .. } => json!({"k": "update", "name": name_json(var), "acc": access_json(access), "r": expr_json(rhe)}),
        Phi { args, .. } => json!({"k": "phi", "phiargs": args.iter().map(name_json).collect::<Vec<_>>()}),
    };
    v["s"] = json!(meta.start());
    v["e"] = json!(meta.end());
    v["val"] = val_json(e.value());
    v["deg"] = match e.degree() {
        Some(r) => json!([deg_num(r.start()), deg_num(r.end())]),
        None => Value::Null,
    };
    v
}

fn type_str(t: &VariableType) -> String {
    match t {
        VariableType::Local => "var".to_string(),
        VariableType::Component => "component".to_string(),
        VariableType::AnonymousComponent => "anon".to_string(),
        VariableType::Signal(SignalType::Input, _) => "input".to_string(),
        VariableType::Signal(SignalType::Output, _) => "output".to_string(),
        VariableType::Signal(SignalType::Intermediate, _) => "signal".to_string(),
    }
}

pub fn stmt_json(s: &Statement) -> Value {
    use Statement::*;
    let mut v = match s {
        Declaration { names, var_type, dimensions, .. } => json!({"k": "decl", "names": names.iter().map(name_json).collect::<Vec<_>>(),
            "names_dbg": names.iter().map(|n| format!("{:?}", n)).collect::<Vec<_>>(),
            "ty": type_str(var_type), "dims": dimensions.iter().map(expr_json).collect::<Vec<_>>()}),
        IfThenElse { cond, true_index, false_index, .. } => json!({"k": "if", "cond": expr_json(cond), "t": true_index,
            "f": false_index.map(|x| x as i64).unwrap_or(-1)}),
        Return { value, .. } => json!({"k": "ret", "value": expr_json(value)}),
        Substitution { var, op, rhe, .. } => json!({"k": "sub", "var": name_json(var), "op": match op {
            AssignOp::AssignSignal => "<--", AssignOp::AssignConstraintSignal => "<==", AssignOp::AssignLocalOrComponent => "=" },
            "rhe": expr_json(rhe)}),
        ConstraintEquality { lhe, rhe, .. } => json!({"k": "ceq", "lhe": expr_json(lhe), "rhe": expr_json(rhe)}),
        LogCall { args, .. } => json!({"k": "log", "args": args.iter().map(|a| match a {
            LogArgument::String(s) => json!({"k": "str", "str": s}), LogArgument::Expr(e) => expr_json(e) }).collect::<Vec<_>>()}),
        Assert { arg, .. } => json!({"k": "assert", "arg": expr_json(arg)}),
    };
    let meta = s.meta();
    v["s"] = json!(meta.start());
    v["e"] = json!(meta.end());
    v["val"] = val_json(meta.value_knowledge().get_reduces_to());
    v["ty_known"] = json!(meta.type_knowledge().variable_type().map(type_str));
    // cached variable uses (what the data-flow passes consume)
    let mut vr: Vec<String> = s.variables_read().map(|u| format!("{:?}", u.name())).collect();
    vr.sort();
    vr.dedup();
    let mut vw: Vec<String> = s.variables_written().map(|u| format!("{:?}", u.name())).collect();
    vw.sort();
    vw.dedup();
    let mut vu: Vec<String> = s.variables_used().map(|u| format!("{:?}", u.name())).collect();
    vu.sort();
    vu.dedup();
    v["vr"] = json!(vr);
    v["vw"] = json!(vw);
    v["vu"] = json!(vu);
    v
}

fn sorted(v: &std::collections::HashSet<usize>) -> Vec<usize> {
    let mut x: Vec<usize> = v.iter().cloned().collect();
    x.sort();
    x
}

pub fn cfg_json(cfg: &Cfg) -> Value {
    let blocks: Vec<Value> = cfg
        .iter()
        .map(|b| {
            let mut dom: Vec<usize> = cfg.get_dominators(b).iter().map(|x| x.index()).collect();
            dom.sort();
            let mut df: Vec<usize> = cfg.get_dominance_frontier(b).iter().map(|x| x.index()).collect();
            df.sort();
            json!({"i": b.index(), "preds": sorted(b.predecessors()), "succs": sorted(b.successors()), "depth": b.loop_depth(),
                   "dom": dom, "df": df, "idom": cfg.get_immediate_dominator(b).map(|x| x.index() as i64).unwrap_or(-1),
                   "stmts": b.iter().map(stmt_json).collect::<Vec<_>>()})
        })
        .collect();
    let mut decls: Vec<Value> = cfg
        .declarations()
        .iter()
        .map(|(n, d)| json!({"name": name_json(n), "ty": type_str(d.variable_type()), "s": d.file_location().start, "e": d.file_location().end,
                             "ndims": d.dimensions().len()}))
        .collect();
    decls.sort_by_key(|d| d.to_string());
    // Debug (full, versioned) name -> Display name (what messages show)
    let mut disp = serde_json::Map::new();
    for n in cfg.parameters().iter() {
        disp.insert(format!("{:?}", n), json!(n.to_string()));
    }
    for (n, _) in cfg.declarations().iter() {
        disp.insert(format!("{:?}", n), json!(n.to_string()));
    }
    for b in cfg.iter() {
        for st in b.iter() {
            for u in st.variables_used() {
                disp.insert(format!("{:?}", u.name()), json!(u.name().to_string()));
            }
            if let Statement::Declaration { names, .. } = st {
                for n in names.iter() {
                    disp.insert(format!("{:?}", n), json!(n.to_string()));
                }
            }
        }
    }
    json!({"name": cfg.name(), "blocks": blocks, "params": cfg.parameters().iter().map(name_json).collect::<Vec<_>>(), "decls": decls,
           "disp": disp,
           "params_dbg": cfg.parameters().iter().map(|n| format!("{:?}", n)).collect::<Vec<_>>(),
           "decls_dbg": cfg.declarations().iter().map(|(n, d)| json!({"n": format!("{:?}", n), "ty": type_str(d.variable_type()),
                        "s": d.file_location().start, "e": d.file_location().end})).collect::<Vec<_>>(),
           "params_loc": [cfg.parameters().file_location().start, cfg.parameters().file_location().end],
           "kind": cfg.definition_type().to_string()})
}

/// case: {src, curve?, prime? (decimal string: hook H3), budget? {v, d} (hook H2), passes?: bool}
pub fn dump_case(case: &Value) -> Value {
    let src = case["src"].as_str().unwrap_or("").to_string();
    let curve = Curve::from_str(case["curve"].as_str().unwrap_or("BN254")).unwrap_or_default();
    let prime = case.get("prime").and_then(|p| p.as_str()).and_then(|p| num_bigint_dig::BigInt::parse_bytes(p.as_bytes(), 10));
    let budget = case.get("budget").map(|b| (b["v"].as_i64().unwrap_or(-1), b["d"].as_i64().unwrap_or(-1)));
    let want_passes = case.get("passes").and_then(|p| p.as_bool()).unwrap_or(false);
    let lib = {
        let mut l = FileLibrary::new();
        l.add_file("in.circom".to_string(), src.clone(), true);
        l
    };
    let r = guarded(|| {
        program_structure::constants::verif::set_prime_override(prime.clone());
        let b = budget.map(|(v, d)| (if v < 0 { None } else { Some(v as usize) }, if d < 0 { None } else { Some(d as usize) })).unwrap_or((None, None));
        program_structure::cfg::verif::set_budgets(b.0, b.1);
        let Some(def) = parser::parse_definition(&src) else {
            return json!({"parse": false});
        };
        let mut reports = ReportCollection::new();
        let mut doc = json!({"parse": true});
        // parse_definition leaves file ids unset (reports would carry no labels): build the library's data
        // types, which fill in the file id, exactly as parse_files does
        let mut elem_id = 0;
        let lifted = match def {
            program_structure::ast::Definition::Function { name, args, arg_location, body, .. } => {
                let data = program_structure::function_data::FunctionData::new(name, 0, body, args.len(), args, arg_location, &mut elem_id);
                (&data).into_cfg(&curve, &mut reports)
            }
            program_structure::ast::Definition::Template { name, args, arg_location, body, parallel, is_custom_gate, .. } => {
                let data = program_structure::template_data::TemplateData::new(
                    name, 0, body, args.len(), args, arg_location, &mut elem_id, parallel, is_custom_gate);
                (&data).into_cfg(&curve, &mut reports)
            }
        };
        let cfg = match lifted {
            Ok(cfg) => cfg,
            Err(e) => {
                let rep: program_structure::report::Report = e.into();
                doc["lift_error"] = report_json(&rep, &lib, "");
                doc["reports"] = json!(reports.iter().map(|r| report_json(r, &lib, "")).collect::<Vec<_>>());
                return doc;
            }
        };
        doc["reports"] = json!(reports.iter().map(|r| report_json(r, &lib, "")).collect::<Vec<_>>());
        doc["pre"] = cfg_json(&cfg);
        match cfg.into_ssa() {
            Ok(ssa) => {
                doc["ssa"] = cfg_json(&ssa);
                let (pv, pd) = program_structure::cfg::verif::passes();
                doc["passes_run"] = json!({"v": pv, "d": pd});
                if want_passes {
                    let templates = std::collections::HashMap::new();
                    let functions = std::collections::HashMap::new();
                    let mut ctx = crate::oracle::Ctx::new(&templates, &functions, &lib, curve.clone());
                    let mut out = Vec::new();
                    for pass in program_analysis::get_analysis_passes() {
                        for r in pass(&mut ctx, &ssa) {
                            out.push(report_json(&r, &lib, ""));
                        }
                    }
                    doc["findings"] = json!(out);
                }
            }
            Err(e) => {
                let rep: program_structure::report::Report = e.into();
                doc["ssa_error"] = report_json(&rep, &lib, "");
            }
        }
        doc
    });
    program_structure::constants::verif::set_prime_override(None);
    program_structure::cfg::verif::set_budgets(None, None);
    let mut doc = match r {
        Ok(d) => d,
        Err(p) => json!({"panic": panic_json(&p)}),
    };
    if let Some(id) = case.get("id") {
        doc["id"] = id.clone();
    }
    doc
}

pub fn run(inp: &str, out: &str) {
    par_map(inp, out, threads(), dump_case);
}
