//! `vh` — conformance harness binding the TLA+ specification in /verif/spec to the
//! real circomspect code (path dependencies on /repo, feature `verif`).
mod util;
mod strip;
mod dom;
mod field;
mod pipeline;
mod curves;
mod oracle;
mod irdump;
mod astcheck;

fn main() {
    util::install_panic_hook();
    let args: Vec<String> = std::env::args().collect();
    if args.len() < 2 {
        eprintln!("usage: vh <command> <in.ndjson> <out.ndjson>");
        std::process::exit(2);
    }
    let cmd = args[1].as_str();
    let a = |i: usize| args.get(i).map(|s| s.as_str()).unwrap_or_else(|| {
        eprintln!("missing argument {i}");
        std::process::exit(2)
    });
    match cmd {
        "strip" => strip::run(a(2), a(3)),
        "dom" => dom::run(a(2), a(3)),
        "field" => field::run(a(2), a(3)),
        "field-real" => field::run_real(a(2), a(3)),
        "pipeline" => pipeline::run(a(2), a(3)),
        "curves" => curves::run(a(2), a(3)),
        "produce" => oracle::run(a(2), a(3)),
        "irdump" => irdump::run(a(2), a(3)),
        "astcheck" => astcheck::run(a(2), a(3)),
        _ => {
            eprintln!("unknown command {cmd}");
            std::process::exit(2);
        }
    }
}
