//! Generic in-process run of the whole library pipeline on a materialised project:
//! parse_files -> AnalysisRunner -> all passes, with a recording writer (no filters).
use crate::util::*;
use program_analysis::analysis_runner::AnalysisRunner;
use program_structure::constants::Curve;
use program_structure::file_definition::FileLibrary;
use program_structure::report::Report;
use program_structure::writers::{LogWriter, ReportWriter};
use serde_json::{json, Value};
use std::fmt::Display;
use std::path::PathBuf;
use std::str::FromStr;
use std::sync::atomic::{AtomicUsize, Ordering};

static COUNTER: AtomicUsize = AtomicUsize::new(0);

pub fn scratch_root() -> PathBuf {
    let root = std::env::var("VH_SCRATCH").unwrap_or_else(|_| "/verif/.build/proj".to_string());
    PathBuf::from(root)
}

pub struct Project {
    pub dir: PathBuf,
    pub named: Vec<PathBuf>,
    pub libs: Vec<PathBuf>,
    keep: bool,
}

impl Drop for Project {
    fn drop(&mut self) {
        if !self.keep {
            let _ = std::fs::remove_dir_all(&self.dir);
        }
    }
}

/// Materialise `files: [{path, text | b64, named, symlink?}]`, `libs: [rel dir]` under a fresh
/// scratch directory.
pub fn materialise(case: &Value) -> Project {
    let n = COUNTER.fetch_add(1, Ordering::SeqCst);
    let dir = scratch_root().join(format!("p{}-{}", std::process::id(), n));
    let _ = std::fs::remove_dir_all(&dir);
    std::fs::create_dir_all(&dir).expect("mkdir scratch");
    let mut named = Vec::new();
    for f in case["files"].as_array().map(|a| a.as_slice()).unwrap_or(&[]) {
        let rel = f["path"].as_str().unwrap();
        let path = dir.join(rel);
        if let Some(parent) = path.parent() {
            std::fs::create_dir_all(parent).unwrap();
        }
        if let Some(target) = f.get("symlink").and_then(|v| v.as_str()) {
            let _ = std::os::unix::fs::symlink(target, &path);
        } else if f.get("missing").and_then(|v| v.as_bool()).unwrap_or(false) {
            // named but not created
        } else if let Some(bytes) = f.get("bytes").and_then(|v| v.as_array()) {
            let b: Vec<u8> = bytes.iter().map(|x| x.as_u64().unwrap() as u8).collect();
            std::fs::write(&path, b).unwrap();
        } else {
            std::fs::write(&path, f["text"].as_str().unwrap_or("")).unwrap();
        }
        if f["named"].as_bool().unwrap_or(false) {
            named.push(match f.get("spell").and_then(|v| v.as_str()) {
                Some(sp) => dir.join(sp),
                None => path.clone(),
            });
        }
    }
    let libs = case["libs"].as_array().map(|a| a.iter().map(|l| dir.join(l.as_str().unwrap())).collect()).unwrap_or_default();
    Project { dir, named, libs, keep: false }
}

pub struct Recorder {
    pub events: Vec<Value>,
    pub written: usize,
    prefix: String,
}

impl Recorder {
    pub fn new(prefix: &str) -> Recorder {
        Recorder { events: Vec::new(), written: 0, prefix: prefix.to_string() }
    }
}

pub fn label_json(l: &program_structure::report::ReportLabel, lib: &FileLibrary, prefix: &str) -> Value {
    let storage = lib.to_storage();
    let (name, len, text, ok) = match storage.get(l.file_id) {
        Ok(f) => {
            let src: &String = f.source();
            let name: &String = f.name();
            let t = src.get(l.range.start..l.range.end).map(|s| s.to_string());
            (name.replace(prefix, ""), src.len() as i64, t.clone(), t.is_some())
        }
        Err(_) => ("<unknown file>".to_string(), -1, None, false),
    };
    json!({"file": name, "fid": l.file_id, "s": l.range.start, "e": l.range.end, "msg": l.message.replace(prefix, ""),
           "flen": len, "text": text, "valid": ok})
}

pub fn report_json(r: &Report, lib: &FileLibrary, prefix: &str) -> Value {
    json!({
        "id": r.id(),
        "name": r.name(),
        "cat": r.category().to_string(),
        "msg": r.message().replace(prefix, ""),
        "primary": r.primary().iter().map(|l| label_json(l, lib, prefix)).collect::<Vec<_>>(),
        "secondary": r.secondary().iter().map(|l| label_json(l, lib, prefix)).collect::<Vec<_>>(),
        "primary_fids": r.primary_file_ids(),
        "notes": r.notes().iter().map(|n| n.replace(prefix, "")).collect::<Vec<_>>(),
    })
}

impl LogWriter for Recorder {
    fn write_messages<D: Display>(&mut self, messages: &[D]) {
        for m in messages {
            self.events.push(json!({"e": "msg", "text": m.to_string()}));
        }
    }
}

impl ReportWriter for Recorder {
    fn write_reports(&mut self, reports: &[Report], file_library: &FileLibrary) -> usize {
        for r in reports {
            self.events.push(json!({"e": "report", "r": report_json(r, file_library, &self.prefix)}));
        }
        self.written += reports.len();
        reports.len()
    }
    fn reports_written(&self) -> usize {
        self.written
    }
}

pub fn files_json(lib: &FileLibrary, prefix: &str) -> Vec<Value> {
    let mut v = Vec::new();
    let storage = lib.to_storage();
    let mut id = 0;
    while let Ok(f) = storage.get(id) {
        let name: &String = f.name();
        let src: &String = f.source();
        v.push(json!({"fid": id, "path": name.replace(prefix, ""), "named": lib.is_user_input(id), "len": src.len()}));
        id += 1;
    }
    v
}

/// Run the library pipeline on a project. `order`: optional [[is_template, name]..] replayed
/// through hook H4 (otherwise functions then templates in the runner's own order).
pub fn run_project(case: &Value) -> Value {
    let proj = materialise(case);
    let prefix = format!("{}/", proj.dir.display());
    let curve = Curve::from_str(case["curve"].as_str().unwrap_or("BN254")).unwrap_or_default();
    let r = guarded(|| {
        let (mut runner, reports) = AnalysisRunner::new(curve).with_libraries(&proj.libs).with_files(&proj.named);
        let mut rec = Recorder::new(&prefix);
        let parse: Vec<Value> = reports.iter().map(|r| report_json(r, runner.file_library(), &prefix)).collect();
        let mut tpls = runner.template_names(false);
        tpls.sort();
        let mut fns = runner.function_names(false);
        fns.sort();
        let mut utpls = runner.template_names(true);
        utpls.sort();
        let mut ufns = runner.function_names(true);
        ufns.sort();
        let stage = guarded(|| {
            if let Some(order) = case.get("order").and_then(|o| o.as_array()) {
                let ord: Vec<(bool, String)> = order.iter().map(|x| (x[0].as_bool().unwrap(), x[1].as_str().unwrap().to_string())).collect();
                runner.verif_analyze_in_order(&ord, &mut rec);
            } else {
                runner.analyze_functions(&mut rec, true);
                runner.analyze_templates(&mut rec, true);
            }
        });
        let mut doc = json!({
            "parse": parse,
            "events": rec.events,
            "templates": tpls, "functions": fns,
            "user_templates": utpls, "user_functions": ufns,
            "files": files_json(runner.file_library(), &prefix),
        });
        if let Err(p) = stage {
            doc["panic"] = panic_json(&p);
        }
        doc
    });
    let mut doc = match r {
        Ok(d) => d,
        Err(p) => json!({"panic": panic_json(&p), "stage": "parse"}),
    };
    if let Some(id) = case.get("id") {
        doc["id"] = id.clone();
    }
    doc
}

pub fn run(inp: &str, out: &str) {
    std::fs::create_dir_all(scratch_root()).ok();
    par_map(inp, out, threads(), run_project);
}
