//! C05: replay strings on the real comment stripper (hook H1).
use crate::util::*;
use serde_json::{json, Value};

/// Symbols of Comments.tla -> real characters.
pub fn sym(c: &str) -> &'static str {
    match c {
        "/" => "/",
        "*" => "*",
        "n" => "\n",
        "a" => "a",
        "e" => "\u{e9}",
        "q" => "\"",
        "r" => "\r",
        "t" => "\t",
        "s" => " ",
        "w" => "\u{1F600}",
        _ => "?",
    }
}

pub fn render(s: &Value) -> String {
    s.as_array().map(|a| a.iter().map(|c| sym(c.as_str().unwrap_or("?"))).collect::<String>()).unwrap_or_default()
}

pub fn run(inp: &str, out: &str) {
    par_map(inp, out, threads(), |case| {
        let text = match case.get("text") {
            Some(Value::String(t)) => t.clone(),
            _ => render(&case["s"]),
        };
        match guarded(|| parser::verif::preprocess(&text, 0)) {
            Ok(Ok(pp)) => json!({"out": pp, "err": false}),
            Ok(Err(report)) => {
                let labels: Vec<Value> = report.primary().iter().map(|l| json!([l.range.start, l.range.end])).collect();
                json!({"err": true, "id": report.id(), "labels": labels, "category": report.category().to_string()})
            }
            Err(p) => json!({"panic": panic_json(&p)}),
        }
    });
}
