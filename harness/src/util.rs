//! Shared helpers: parallel NDJSON map, panic capture.
use serde_json::Value;
use std::cell::RefCell;
use std::io::{BufRead, BufReader, BufWriter, Write};
use std::panic;
use std::sync::{Arc, Mutex};

thread_local! {
    static LAST_PANIC: RefCell<Option<(String, String)>> = RefCell::new(None);
}

/// Install a panic hook that records `file:line` and the message per thread
/// instead of printing a backtrace. A panic in the code under test is data.
pub fn install_panic_hook() {
    panic::set_hook(Box::new(|info| {
        let loc = info.location().map(|l| format!("{}:{}", l.file(), l.line())).unwrap_or_default();
        let msg = if let Some(s) = info.payload().downcast_ref::<&str>() {
            s.to_string()
        } else if let Some(s) = info.payload().downcast_ref::<String>() {
            s.clone()
        } else {
            "<non-string panic>".to_string()
        };
        LAST_PANIC.with(|c| *c.borrow_mut() = Some((loc, msg)));
    }));
}

/// Run `f`, turning a panic into `Err((location, message))`.
pub fn guarded<T>(f: impl FnOnce() -> T) -> Result<T, (String, String)> {
    LAST_PANIC.with(|c| *c.borrow_mut() = None);
    match panic::catch_unwind(panic::AssertUnwindSafe(f)) {
        Ok(v) => Ok(v),
        Err(_) => Err(LAST_PANIC.with(|c| c.borrow_mut().take()).unwrap_or_default()),
    }
}

pub fn panic_json(p: &(String, String)) -> Value {
    let site = p.0.trim_start_matches("/repo/").to_string();
    let mut msg = p.1.clone();
    if msg.len() > 160 {
        let mut k = 160;
        while !msg.is_char_boundary(k) {
            k -= 1;
        }
        msg.truncate(k);
    }
    serde_json::json!({"site": site, "msg": msg})
}

/// Read NDJSON from `inp`, apply `f` to every document on `threads` threads,
/// write the results (same order) to `out`.
pub fn par_map<F>(inp: &str, out: &str, threads: usize, f: F)
where
    F: Fn(&Value) -> Value + Send + Sync + 'static,
{
    let reader = BufReader::new(std::fs::File::open(inp).expect("open input"));
    let lines: Vec<String> = reader.lines().map(|l| l.unwrap()).filter(|l| !l.trim().is_empty()).collect();
    let n = lines.len();
    let lines = Arc::new(lines);
    let results: Arc<Mutex<Vec<Option<String>>>> = Arc::new(Mutex::new(vec![None; n]));
    let next = Arc::new(std::sync::atomic::AtomicUsize::new(0));
    let f = Arc::new(f);
    let mut hs = Vec::new();
    for _ in 0..threads.max(1) {
        let (lines, results, next, f) = (lines.clone(), results.clone(), next.clone(), f.clone());
        hs.push(
            std::thread::Builder::new()
                .stack_size(256 << 20)
                .spawn(move || {
                    let mut local: Vec<(usize, String)> = Vec::new();
                    loop {
                        let i = next.fetch_add(64, std::sync::atomic::Ordering::SeqCst);
                        if i >= lines.len() {
                            break;
                        }
                        for j in i..(i + 64).min(lines.len()) {
                            let v: Value = serde_json::from_str(&lines[j]).expect("bad json line");
                            let r = f(&v);
                            local.push((j, serde_json::to_string(&r).unwrap()));
                        }
                        if local.len() > 4096 {
                            let mut g = results.lock().unwrap();
                            for (j, s) in local.drain(..) {
                                g[j] = Some(s);
                            }
                        }
                    }
                    let mut g = results.lock().unwrap();
                    for (j, s) in local.drain(..) {
                        g[j] = Some(s);
                    }
                })
                .unwrap(),
        );
    }
    for h in hs {
        h.join().expect("worker thread died");
    }
    let mut w = BufWriter::new(std::fs::File::create(out).expect("create output"));
    for r in results.lock().unwrap().iter() {
        w.write_all(r.as_ref().unwrap().as_bytes()).unwrap();
        w.write_all(b"\n").unwrap();
    }
}

pub fn threads() -> usize {
    std::env::var("VH_THREADS").ok().and_then(|s| s.parse().ok()).unwrap_or(12)
}
