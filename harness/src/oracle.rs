//! Independent production oracle (C02, C03, C17, C19): what every definition of a project
//! produces, computed from the public stage functions only -- parse_files, into_cfg, into_ssa,
//! get_analysis_passes -- with a context implemented here, i.e. without AnalysisRunner's
//! caching, report bookkeeping and writer filters.
use crate::pipeline::{files_json, materialise, report_json};
use crate::util::*;
use parser::ParseResult;
use program_analysis::analysis_context::{AnalysisContext, AnalysisError};
use program_analysis::config::COMPILER_VERSION;
use program_analysis::get_analysis_passes;
use program_structure::cfg::{Cfg, IntoCfg};
use program_structure::constants::Curve;
use program_structure::file_definition::{FileID, FileLibrary, FileLocation};
use program_structure::function_data::FunctionInfo;
use program_structure::report::ReportCollection;
use program_structure::template_data::TemplateInfo;
use serde_json::{json, Value};
use std::collections::HashMap;
use std::str::FromStr;

pub struct Ctx<'a> {
    pub templates: &'a TemplateInfo,
    pub functions: &'a FunctionInfo,
    pub lib: &'a FileLibrary,
    pub curve: Curve,
    tcfgs: HashMap<String, Option<Cfg>>,
    fcfgs: HashMap<String, Option<Cfg>>,
    pub lookups: Vec<String>,
}

impl<'a> Ctx<'a> {
    pub fn new(templates: &'a TemplateInfo, functions: &'a FunctionInfo, lib: &'a FileLibrary, curve: Curve) -> Self {
        Ctx { templates, functions, lib, curve, tcfgs: HashMap::new(), fcfgs: HashMap::new(), lookups: Vec::new() }
    }
}

impl<'a> AnalysisContext for Ctx<'a> {
    fn is_function(&self, name: &str) -> bool {
        self.functions.contains_key(name)
    }
    fn is_template(&self, name: &str) -> bool {
        self.templates.contains_key(name)
    }
    fn function(&mut self, name: &str) -> Result<&Cfg, AnalysisError> {
        let Some(ast) = self.functions.get(name) else {
            return Err(AnalysisError::UnknownFunction { name: name.to_string() });
        };
        if !self.fcfgs.contains_key(name) {
            let mut r = ReportCollection::new();
            let cfg = ast.into_cfg(&self.curve, &mut r).ok().and_then(|c| c.into_ssa().ok());
            self.fcfgs.insert(name.to_string(), cfg);
        }
        self.fcfgs.get(name).unwrap().as_ref().ok_or(AnalysisError::FailedToLiftFunction { name: name.to_string() })
    }
    fn template(&mut self, name: &str) -> Result<&Cfg, AnalysisError> {
        self.lookups.push(name.to_string());
        let Some(ast) = self.templates.get(name) else {
            return Err(AnalysisError::UnknownTemplate { name: name.to_string() });
        };
        if !self.tcfgs.contains_key(name) {
            let mut r = ReportCollection::new();
            let cfg = ast.into_cfg(&self.curve, &mut r).ok().and_then(|c| c.into_ssa().ok());
            self.tcfgs.insert(name.to_string(), cfg);
        }
        self.tcfgs.get(name).unwrap().as_ref().ok_or(AnalysisError::FailedToLiftTemplate { name: name.to_string() })
    }
    fn underlying_str(&self, file_id: &FileID, file_location: &FileLocation) -> Result<String, AnalysisError> {
        let Ok(file) = self.lib.to_storage().get(*file_id) else {
            return Err(AnalysisError::UnknownFile { file_id: *file_id });
        };
        let src: &String = file.source();
        match src.get(file_location.start..file_location.end) {
            Some(s) => Ok(s.to_string()),
            None => Err(AnalysisError::InvalidLocation { file_id: *file_id, file_location: file_location.clone() }),
        }
    }
}

fn produce_def<A: IntoCfg>(ast: A, ctx: &mut Ctx, prefix: &str) -> Value {
    let curve = ctx.curve.clone();
    let lib = ctx.lib;
    let r = guarded(|| {
        let mut cfg_reports = ReportCollection::new();
        let cfg = match ast.into_cfg(&curve, &mut cfg_reports) {
            Ok(cfg) => match cfg.into_ssa() {
                Ok(cfg) => Some(cfg),
                Err(e) => {
                    cfg_reports.push(e.into());
                    None
                }
            },
            Err(e) => {
                cfg_reports.push(e.into());
                None
            }
        };
        let mut pass_reports = ReportCollection::new();
        ctx.lookups.clear();
        if let Some(cfg) = &cfg {
            for pass in get_analysis_passes() {
                pass_reports.append(&mut pass(ctx, cfg));
            }
        }
        json!({
            "lift_ok": cfg.is_some(),
            "cfg_reports": cfg_reports.iter().map(|r| report_json(r, lib, prefix)).collect::<Vec<_>>(),
            "pass_reports": pass_reports.iter().map(|r| report_json(r, lib, prefix)).collect::<Vec<_>>(),
            "lookups": ctx.lookups.clone(),
        })
    });
    match r {
        Ok(v) => v,
        Err(p) => json!({"panic": panic_json(&p)}),
    }
}

pub fn produce(case: &Value) -> Value {
    let proj = materialise(case);
    let prefix = format!("{}/", proj.dir.display());
    let curve = Curve::from_str(case["curve"].as_str().unwrap_or("BN254")).unwrap_or_default();
    let r = guarded(|| {
        let (templates, functions, lib, reports, is_program) = match parser::parse_files(&proj.named, &proj.libs, &COMPILER_VERSION) {
            ParseResult::Program(p, w) => (p.templates, p.functions, p.file_library, w, true),
            ParseResult::Library(l, w) => (l.templates, l.functions, l.file_library, w, false),
        };
        let parse: Vec<Value> = reports.iter().map(|r| report_json(r, &lib, &prefix)).collect();
        let mut defs = Vec::new();
        let mut fnames: Vec<&String> = functions.keys().collect();
        fnames.sort();
        let mut tnames: Vec<&String> = templates.keys().collect();
        tnames.sort();
        for name in fnames {
            let ast = &functions[name];
            let mut ctx = Ctx::new(&templates, &functions, &lib, curve.clone());
            let mut d = produce_def(ast, &mut ctx, &prefix);
            d["kind"] = json!("function");
            d["name"] = json!(name);
            d["named"] = json!(lib.is_user_input(ast.get_file_id()));
            d["fid"] = json!(ast.get_file_id());
            defs.push(d);
        }
        for name in tnames {
            let ast = &templates[name];
            let mut ctx = Ctx::new(&templates, &functions, &lib, curve.clone());
            let mut d = produce_def(ast, &mut ctx, &prefix);
            d["kind"] = json!("template");
            d["name"] = json!(name);
            d["named"] = json!(lib.is_user_input(ast.get_file_id()));
            d["fid"] = json!(ast.get_file_id());
            defs.push(d);
        }
        json!({"parse": parse, "defs": defs, "files": files_json(&lib, &prefix), "is_program": is_program})
    });
    let mut doc = match r {
        Ok(d) => d,
        Err(p) => json!({"panic": panic_json(&p), "stage": "parse"}),
    };
    if let Some(id) = case.get("id") {
        doc["id"] = id.clone();
    }
    doc
}

pub fn run(inp: &str, out: &str) {
    std::fs::create_dir_all(crate::pipeline::scratch_root()).ok();
    par_map(inp, out, threads(), produce);
}
